package calendar

import (
	"container/list"

	"github.com/6tail/lunar-go/LunarUtil"
)

// C11a (field-level): routes agree on every InvLunar state.
func VH_C11_Routes() {
	vhFieldLevel = true
	base := NewSolar(vParam("Y"), 6, 15, 12, 0, 0).GetLunar()
	l := vhLunarSym("", base)
	t := &LunarTime{lunar: l, zhiIndex: l.timeZhiIndex, ganIndex: l.timeGanIndex}
	e := l.GetEightChar()
	e.SetSect(vParam("SECT"))
	ly := NewLunarYear(l.year)
	vhRoutes(l, t, e, ly)
	// the sect selects the day pillar variant
	if vParam("SECT") == 2 {
		vAssert("ec-day-sect2", e.GetDay() == l.GetDayInGanZhiExact2() && e.GetDayGan() == l.GetDayGanExact2() && e.GetDayZhi() == l.GetDayZhiExact2())
	} else {
		vAssert("ec-day-sect1", e.GetDay() == l.GetDayInGanZhiExact() && e.GetDayGan() == l.GetDayGanExact() && e.GetDayZhi() == l.GetDayZhiExact())
	}
	vhFieldLevel = false
	vReach("C11a")
}

// C11b (field-level): pillar purity of the eight characters.
func VH_C11_PillarPure() {
	vhFieldLevel = true
	base := NewSolar(vParam("Y"), 6, 15, 12, 0, 0).GetLunar()
	a, b := vhLunarSym("a", base), vhLunarSym("b", base)
	ea, eb := a.GetEightChar(), b.GetEightChar()
	ea.SetSect(vParam("SECT"))
	eb.SetSect(vParam("SECT"))
	vhEightCharPure(ea, eb)
	vhFieldLevel = false
	vReach("C11b")
}

// C18a (field-level): almanac attributes are functions of their defining pillars.
func VH_C18_Pure() {
	vhFieldLevel = true
	base := NewSolar(vParam("Y"), 6, 15, 12, 0, 0).GetLunar()
	a, b := vhLunarSym("a", base), vhLunarSym("b", base)
	vhPure(a, b)
	vhFieldLevel = false
	vReach("C18a")
}

// C18b: classical laws over the finite tables.
func VH_C18_Laws() {
	vhFieldLevel = true
	base := NewSolar(vParam("Y"), 6, 15, 12, 0, 0).GetLunar()
	l := vhLunarSym("", base)
	// duty god is "establish" exactly when day and month branches coincide
	vAssert("zhixing-jian", (l.GetZhiXing() == "建") == (l.dayZhiIndex == l.monthZhiIndex))
	// the clash branch is six places away
	vAssert("chong-six-away", l.GetDayChong() == LunarUtil.ZHI[(vConcretize(l.dayZhiIndex)+6)%12+1])
	vAssert("time-chong-six-away", l.GetTimeChong() == LunarUtil.ZHI[(vConcretize(l.timeZhiIndex)+6)%12+1])
	// the 28 mansions advance by one when weekday and day branch both advance by one
	xi := LunarUtil.Find(l.GetXiu(), vhXiuOrder, 0)
	vAssert("xiu-known", xi >= 0)
	n := &Lunar{}
	*n = *l
	n.dayZhiIndex = (l.dayZhiIndex + 1) % 12
	n.weekIndex = (l.weekIndex + 1) % 7
	xn := LunarUtil.Find(n.GetXiu(), vhXiuOrder, 0)
	vAssert("xiu-advances", xn == (xi+1)%28)
	vhFieldLevel = false
	vReach("C18b")
}

// the fixed order of the 28 lunar mansions
var vhXiuOrder = []string{"角", "亢", "氐", "房", "心", "尾", "箕", "斗", "牛", "女", "虚", "危", "室", "壁", "奎", "娄", "胃", "昴", "毕", "觜", "参", "井", "鬼", "柳", "星", "张", "翼", "轸"}

// C18c: table laws (concrete evaluation): the two pairs of each nayin share one element; clash table is an involution.
func VH_C18_Tables() {
	for i := 0; i < 60; i += 2 {
		a, b := LunarUtil.JIA_ZI[i], LunarUtil.JIA_ZI[i+1]
		vAssert("nayin-pairs", LunarUtil.NAYIN[a] == LunarUtil.NAYIN[b] && LunarUtil.NAYIN[a] != "")
	}
	for z := 0; z < 12; z++ {
		vAssert("chong-table", LunarUtil.CHONG[z] == LunarUtil.ZHI[(z+6)%12+1])
	}
	vReach("C18c")
}

// C11c (per lunar year, concrete): the lunar-year object agrees with the New-Year-based year accessors of a date in that year.
func VH_C11_YearObject() {
	Y := vParam("Y")
	l := NewSolar(Y, 6, 15, 12, 0, 0).GetLunar()
	ly := NewLunarYear(l.year)
	vAssert("yearobj:ganzhi", ly.GetGanZhi() == l.GetYearInGanZhi() && ly.GetGan() == l.GetYearGan() && ly.GetZhi() == l.GetYearZhi())
	vAssert("yearobj:nine-star", ly.GetNineStar().GetIndex() == l.GetYearNineStarBySect(1).GetIndex())
	vAssert("yearobj:nine-star-closed-form", ly.GetNineStar().GetIndex() == specMod(2-(l.year-2024), 9))
	vAssert("yearobj:taisui", ly.GetPositionTaiSui() == l.GetYearPositionTaiSuiBySect(1) && ly.GetPositionTaiSuiDesc() == l.GetYearPositionTaiSuiDescBySect(1))
	vAssert("yearobj:indices", ly.GetGanIndex() == l.yearGanIndex && ly.GetZhiIndex() == l.yearZhiIndex && ly.GetYear() == l.year)
	vReach("C11c")
}

// C11d (real objects): the hour object obtained from a converted date agrees with the date's own hour accessors,
// including the two duplicated implementations of the hour nine star (which depend on the solar-term table).
func VH_C11_TimeObject() {
	Y, m, d, h, mi, s := vhMoment()
	l := NewSolar(Y, m, d, h, mi, s).GetLunar()
	var t *LunarTime
	vAssert("timeobj:no-panic", !vPanics(func() { t = l.GetTime() }))
	vAssert("timeobj:indices", t.GetGanIndex() == l.GetTimeGanIndex() && t.GetZhiIndex() == l.GetTimeZhiIndex())
	vEach(func() {
		vAssert("timeobj:nine-star", t.GetNineStar().GetIndex() == l.GetTimeNineStar().GetIndex())
	})
	vEach(func() {
		vAssert("timeobj:tian-shen", t.GetTianShen() == l.GetTimeTianShen())
	})
	vReach("C11d")
}

func vhSameStrList(x, y *list.List) bool {
	if x == nil || y == nil || x.Len() != y.Len() || x.Len() == 0 {
		return false
	}
	j := y.Front()
	for i := x.Front(); i != nil; i = i.Next() {
		if i.Value.(string) != j.Value.(string) {
			return false
		}
		j = j.Next()
	}
	return true
}

// index 0..59 of the stem-branch pair (g, z) in the sexagenary cycle
func vhJiaZiOf(g, z int) int {
	for i := 0; i < 60; i++ {
		if i%10 == g && i%12 == z {
			return i
		}
	}
	return -1
}

// C18d (field-level): the list-valued almanac attributes are functions of their defining inputs:
// K=0 auspicious / inauspicious spirits by lunar month NUMBER (a leap month counts as its month) and day pillar,
// K=1 suitable / avoid lists by (month pillar, day pillar), K=2 the same under the exact month pillar (sect 2),
// K=3 hour suitable / avoid lists by (early-rat day pillar, hour pillar), both routes.
// The defining inputs are case-split by the solver (vConcretize).  The pillar variants that are NOT defining inputs
// (early-rat day pillar, the other month pillar, sign of the month) are walked as a concrete menu v inside the path, each
// menu entry guarded by the symbolic condition "this state has that variant": an accessor that reads a non-defining
// variant gives different lists for some entry, and the solver then decides whether two InvLunar states realise it.
func VH_C18_ListPure() {
	vhFieldLevel = true
	base := NewSolar(vParam("Y"), 6, 15, 12, 0, 0).GetLunar()
	a, b := vhLunarSym("a", base), vhLunarSym("b", base)
	M := vParam("M")
	K := vParam("K")
	ab := []*Lunar{a, b}
	// symbolic facts about the two states, read before any field is overridden
	var late, lag, leap [2]bool
	for i, x := range ab {
		late[i] = x.hour == 23
		lag[i] = x.monthZhiIndexExact != x.monthZhiIndex
		leap[i] = x.month < 0
	}
	dp, mp := 0, 0
	switch K {
	case 0:
		vAssume((a.month == M || a.month == -M) && (b.month == M || b.month == -M))
		vAssume(a.dayGanIndex == b.dayGanIndex && a.dayZhiIndex == b.dayZhiIndex)
		dp = vhJiaZiOf(vConcretize(a.dayGanIndex), vConcretize(a.dayZhiIndex))
	case 1:
		vAssume(a.monthZhiIndex == M && b.monthZhiIndex == M && a.monthGanIndex == b.monthGanIndex)
		vAssume(a.dayGanIndex == b.dayGanIndex && a.dayZhiIndex == b.dayZhiIndex)
		mp = vhJiaZiOf(vConcretize(a.monthGanIndex), M)
		dp = vhJiaZiOf(vConcretize(a.dayGanIndex), vConcretize(a.dayZhiIndex))
	case 2:
		vAssume(a.monthZhiIndexExact == M && b.monthZhiIndexExact == M && a.monthGanIndexExact == b.monthGanIndexExact)
		vAssume(a.dayGanIndex == b.dayGanIndex && a.dayZhiIndex == b.dayZhiIndex)
		mp = vhJiaZiOf(vConcretize(a.monthGanIndexExact), M)
		dp = vhJiaZiOf(vConcretize(a.dayGanIndex), vConcretize(a.dayZhiIndex))
	default:
		vAssume(a.timeZhiIndex == M && b.timeZhiIndex == M && a.timeGanIndex == b.timeGanIndex)
		vAssume(a.dayGanIndexExact == b.dayGanIndexExact && a.dayZhiIndexExact == b.dayZhiIndexExact)
		dp = vhJiaZiOf(vConcretize(a.dayGanIndexExact), vConcretize(a.dayZhiIndexExact))
		tg := vConcretize(a.timeGanIndex)
		for _, x := range ab {
			x.timeZhiIndex, x.timeGanIndex = M, tg
		}
	}
	for v := 0; v < 64; v++ {
		// menu entry: bit0/1 late(a/b), bit2/3 lag(a/b), bit4/5 leap(a/b); entries that do not matter for K are skipped
		bit := func(k int) bool { return v>>k&1 == 1 }
		if (K != 0 && v >= 16) || (K == 0 || K == 3) && (bit(2) || bit(3)) {
			continue
		}
		for i, x := range ab {
			l8, lg := 0, 0
			if bit(i) {
				l8 = 1
			}
			if bit(2 + i) {
				lg = 1
			}
			switch K {
			case 0, 1, 2:
				x.dayGanIndex, x.dayZhiIndex = dp%10, dp%12
				e := (dp + l8) % 60
				x.dayGanIndexExact, x.dayZhiIndexExact = e%10, e%12
			default:
				n := (dp + 60 - l8) % 60
				x.dayGanIndexExact, x.dayZhiIndexExact = dp%10, dp%12
				x.dayGanIndex, x.dayZhiIndex = n%10, n%12
			}
			x.dayGanIndexExact2, x.dayZhiIndexExact2 = x.dayGanIndex, x.dayZhiIndex
			switch K {
			case 0:
				x.month = M
				if bit(4 + i) {
					x.month = -M
				}
			case 1:
				e := (mp + 60 - lg) % 60
				x.monthGanIndex, x.monthZhiIndex, x.monthGanIndexExact, x.monthZhiIndexExact = mp%10, mp%12, e%10, e%12
			case 2:
				n := (mp + lg) % 60
				x.monthGanIndexExact, x.monthZhiIndexExact, x.monthGanIndex, x.monthZhiIndex = mp%10, mp%12, n%10, n%12
			}
		}
		// "the two states have exactly this variant combination"
		realised := func() bool {
			ok := late[0] == bit(0) && late[1] == bit(1)
			if K == 1 || K == 2 {
				ok = ok && lag[0] == bit(2) && lag[1] == bit(3)
			}
			if K == 0 {
				ok = ok && leap[0] == bit(4) && leap[1] == bit(5)
			}
			return ok
		}
		chk := func(id string, same bool) {
			if !same {
				vAssert(id, !realised())
			}
		}
		// the lists of this menu entry, computed under a panic guard; each must be a well-formed list (C08)
		var la, lb [4]*list.List
		var names [4]string
		pan := vPanics(func() {
			switch K {
			case 0:
				names = [4]string{"GetDayJiShen", "GetDayXiongSha"}
				la[0], lb[0] = a.GetDayJiShen(), b.GetDayJiShen()
				la[1], lb[1] = a.GetDayXiongSha(), b.GetDayXiongSha()
			case 1:
				names = [4]string{"GetDayYi", "GetDayJi", "route:GetDayYiBySect(1)", "route:GetDayJiBySect(1)"}
				la[0], lb[0] = a.GetDayYi(), b.GetDayYi()
				la[1], lb[1] = a.GetDayJi(), b.GetDayJi()
				la[2], lb[2] = a.GetDayYi(), a.GetDayYiBySect(1)
				la[3], lb[3] = a.GetDayJi(), a.GetDayJiBySect(1)
			case 2:
				names = [4]string{"GetDayYiBySect(2)", "GetDayJiBySect(2)"}
				la[0], lb[0] = a.GetDayYiBySect(2), b.GetDayYiBySect(2)
				la[1], lb[1] = a.GetDayJiBySect(2), b.GetDayJiBySect(2)
			default:
				names = [4]string{"GetTimeYi", "GetTimeJi", "route:LunarTime.GetYi", "route:LunarTime.GetJi"}
				t := &LunarTime{lunar: a, zhiIndex: a.timeZhiIndex, ganIndex: a.timeGanIndex}
				la[0], lb[0] = a.GetTimeYi(), b.GetTimeYi()
				la[1], lb[1] = a.GetTimeJi(), b.GetTimeJi()
				la[2], lb[2] = t.GetYi(), a.GetTimeYi()
				la[3], lb[3] = t.GetJi(), a.GetTimeJi()
			}
		})
		if pan {
			vAssert("list:no-panic", !realised())
			continue
		}
		for k := 0; k < 4; k++ {
			if names[k] == "" {
				continue
			}
			if !(vhListOK(la[k]) && vhListOK(lb[k])) {
				vAssert("list-well-formed:"+names[k], !realised())
			}
			id := "list-pure:" + names[k]
			if len(names[k]) > 6 && names[k][:6] == "route:" {
				id = "list-" + names[k]
			}
			chk(id, vhSameStrList(la[k], lb[k]))
		}
	}
	vAssert("list-pure:walked", true)
	vhFieldLevel = false
	vReach("C18d")
}
