package calendar

import "github.com/6tail/lunar-go/LunarUtil"

// C11a (field-level): routes agree on every InvLunar state.
func VH_C11_Routes() {
	vhFieldLevel = true
	base := NewSolar(vParam("Y"), 6, 15, 12, 0, 0).GetLunar()
	l := vhLunarSym("", base)
	t := &LunarTime{lunar: l, zhiIndex: l.timeZhiIndex, ganIndex: l.timeGanIndex}
	e := l.GetEightChar()
	e.SetSect(vParam("SECT"))
	ly := NewLunarYear(l.year)
	vhRoutes(l, t, e, ly)
	// the sect selects the day pillar variant
	if vParam("SECT") == 2 {
		vAssert("ec-day-sect2", e.GetDay() == l.GetDayInGanZhiExact2() && e.GetDayGan() == l.GetDayGanExact2() && e.GetDayZhi() == l.GetDayZhiExact2())
	} else {
		vAssert("ec-day-sect1", e.GetDay() == l.GetDayInGanZhiExact() && e.GetDayGan() == l.GetDayGanExact() && e.GetDayZhi() == l.GetDayZhiExact())
	}
	vhFieldLevel = false
	vReach("C11a")
}

// C11b (field-level): pillar purity of the eight characters.
func VH_C11_PillarPure() {
	vhFieldLevel = true
	base := NewSolar(vParam("Y"), 6, 15, 12, 0, 0).GetLunar()
	a, b := vhLunarSym("a", base), vhLunarSym("b", base)
	ea, eb := a.GetEightChar(), b.GetEightChar()
	ea.SetSect(vParam("SECT"))
	eb.SetSect(vParam("SECT"))
	vhEightCharPure(ea, eb)
	vhFieldLevel = false
	vReach("C11b")
}

// C18a (field-level): almanac attributes are functions of their defining pillars.
func VH_C18_Pure() {
	vhFieldLevel = true
	base := NewSolar(vParam("Y"), 6, 15, 12, 0, 0).GetLunar()
	a, b := vhLunarSym("a", base), vhLunarSym("b", base)
	vhPure(a, b)
	vhFieldLevel = false
	vReach("C18a")
}

// C18b: classical laws over the finite tables.
func VH_C18_Laws() {
	vhFieldLevel = true
	base := NewSolar(vParam("Y"), 6, 15, 12, 0, 0).GetLunar()
	l := vhLunarSym("", base)
	// duty god is "establish" exactly when day and month branches coincide
	vAssert("zhixing-jian", (l.GetZhiXing() == "建") == (l.dayZhiIndex == l.monthZhiIndex))
	// the clash branch is six places away
	vAssert("chong-six-away", l.GetDayChong() == LunarUtil.ZHI[(vConcretize(l.dayZhiIndex)+6)%12+1])
	vAssert("time-chong-six-away", l.GetTimeChong() == LunarUtil.ZHI[(vConcretize(l.timeZhiIndex)+6)%12+1])
	// the 28 mansions advance by one when weekday and day branch both advance by one
	xi := LunarUtil.Find(l.GetXiu(), vhXiuOrder, 0)
	vAssert("xiu-known", xi >= 0)
	n := &Lunar{}
	*n = *l
	n.dayZhiIndex = (l.dayZhiIndex + 1) % 12
	n.weekIndex = (l.weekIndex + 1) % 7
	xn := LunarUtil.Find(n.GetXiu(), vhXiuOrder, 0)
	vAssert("xiu-advances", xn == (xi+1)%28)
	vhFieldLevel = false
	vReach("C18b")
}

// the fixed order of the 28 lunar mansions
var vhXiuOrder = []string{"角", "亢", "氐", "房", "心", "尾", "箕", "斗", "牛", "女", "虚", "危", "室", "壁", "奎", "娄", "胃", "昴", "毕", "觜", "参", "井", "鬼", "柳", "星", "张", "翼", "轸"}

// C18c: table laws (concrete evaluation): the two pairs of each nayin share one element; clash table is an involution.
func VH_C18_Tables() {
	for i := 0; i < 60; i += 2 {
		a, b := LunarUtil.JIA_ZI[i], LunarUtil.JIA_ZI[i+1]
		vAssert("nayin-pairs", LunarUtil.NAYIN[a] == LunarUtil.NAYIN[b] && LunarUtil.NAYIN[a] != "")
	}
	for z := 0; z < 12; z++ {
		vAssert("chong-table", LunarUtil.CHONG[z] == LunarUtil.ZHI[(z+6)%12+1])
	}
	vReach("C18c")
}

// C11c (per lunar year, concrete): the lunar-year object agrees with the New-Year-based year accessors of a date in that year.
func VH_C11_YearObject() {
	Y := vParam("Y")
	l := NewSolar(Y, 6, 15, 12, 0, 0).GetLunar()
	ly := NewLunarYear(l.year)
	vAssert("yearobj:ganzhi", ly.GetGanZhi() == l.GetYearInGanZhi() && ly.GetGan() == l.GetYearGan() && ly.GetZhi() == l.GetYearZhi())
	vAssert("yearobj:nine-star", ly.GetNineStar().GetIndex() == l.GetYearNineStarBySect(1).GetIndex())
	vAssert("yearobj:nine-star-closed-form", ly.GetNineStar().GetIndex() == specMod(2-(l.year-2024), 9))
	vAssert("yearobj:taisui", ly.GetPositionTaiSui() == l.GetYearPositionTaiSuiBySect(1) && ly.GetPositionTaiSuiDesc() == l.GetYearPositionTaiSuiDescBySect(1))
	vAssert("yearobj:indices", ly.GetGanIndex() == l.yearGanIndex && ly.GetZhiIndex() == l.yearZhiIndex && ly.GetYear() == l.year)
	vReach("C11c")
}

// C11d (real objects): the hour object obtained from a converted date agrees with the date's own hour accessors,
// including the two duplicated implementations of the hour nine star (which depend on the solar-term table).
func VH_C11_TimeObject() {
	Y, m, d, h, mi, s := vhMoment()
	l := NewSolar(Y, m, d, h, mi, s).GetLunar()
	var t *LunarTime
	vAssert("timeobj:no-panic", !vPanics(func() { t = l.GetTime() }))
	vAssert("timeobj:indices", t.GetGanIndex() == l.GetTimeGanIndex() && t.GetZhiIndex() == l.GetTimeZhiIndex())
	vEach(func() {
		vAssert("timeobj:nine-star", t.GetNineStar().GetIndex() == l.GetTimeNineStar().GetIndex())
	})
	vEach(func() {
		vAssert("timeobj:tian-shen", t.GetTianShen() == l.GetTimeTianShen())
	})
	vReach("C11d")
}
