package calendar

import "github.com/6tail/lunar-go/LunarUtil"

// C05-H1: day and hour pillars (year-symbolic, in-package: the real computeDay / computeTime).
func VH_C05_DayTime() {
	y, m, d := vhDate("")
	h, mi, s := vInt("h", 0, 23), vInt("mi", 0, 59), vInt("s", 0, 59)
	l := &Lunar{solar: NewSolar(y, m, d, h, mi, s), hour: h, minute: mi, second: s}
	computeDay(l)
	computeTime(l)
	noon := NewSolar(y, m, d, 12, 0, 0)
	vAssert("jdn-lemma", int(noon.GetJulianDay()) == specJDN(y, m, d))
	idx := (specJDN(y, m, d) + 49) % 60
	vAssert("day-gan", l.dayGanIndex == idx%10)
	vAssert("day-zhi", l.dayZhiIndex == idx%12)
	vAssert("exact2-is-plain", l.dayGanIndexExact2 == l.dayGanIndex && l.dayZhiIndexExact2 == l.dayZhiIndex)
	late := 0
	if h == 23 {
		late = 1
	}
	vAssert("exact-gan", l.dayGanIndexExact == (idx+late)%10)
	vAssert("exact-zhi", l.dayZhiIndexExact == (idx+late)%12)
	vAssert("time-zhi", l.timeZhiIndex == ((h+1)/2)%12)
	vAssert("time-gan", l.timeGanIndex == (2*(l.dayGanIndexExact%5)+l.timeZhiIndex)%10)
	vAssert("time-parity", l.timeGanIndex%2 == l.timeZhiIndex%2)
	vReach("C05a")
}

func specMod(a, n int) int {
	r := a % n
	if r < 0 {
		r += n
	}
	return r
}

// C05-H2: year and month pillars for every moment of a concrete year (table = that year's real terms).
func VH_C05_YearMonth() {
	Y, m, d, h, mi, s := vhMoment()
	l := NewSolar(Y, m, d, h, mi, s).GetLunar()
	// New-Year convention
	vAssert("year-gan", l.yearGanIndex == specMod(l.year-4, 10))
	vAssert("year-zhi", l.yearZhiIndex == specMod(l.year-4, 12))
	// Lichun of the civil year Y: the table entry named 立春 / LI_CHUN whose year is Y
	lc := l.jieQi["立春"]
	if lc.year != Y {
		lc = l.jieQi["LI_CHUN"]
	}
	yl := Y - 1
	if specCmp6(Y, m, d, 0, 0, 0, lc.year, lc.month, lc.day, 0, 0, 0) >= 0 {
		yl = Y
	}
	vAssert("lichun-gan", l.yearGanIndexByLiChun == specMod(yl-4, 10))
	vAssert("lichun-zhi", l.yearZhiIndexByLiChun == specMod(yl-4, 12))
	ye := Y - 1
	if specCmp6(Y, m, d, h, mi, s, lc.year, lc.month, lc.day, lc.hour, lc.minute, lc.second) >= 0 {
		ye = Y
	}
	vAssert("exact-gan", l.yearGanIndexExact == specMod(ye-4, 10))
	vAssert("exact-zhi", l.yearZhiIndexExact == specMod(ye-4, 12))
	// month pillars: one step per Jie (even table positions), day level and instant level
	k, ke := 0, 0
	for i := 0; i < len(JIE_QI_IN_USE); i += 2 {
		if specTermCmp(l, i, true, Y, m, d, 0, 0, 0) <= 0 {
			k++
		}
		if specTermCmp(l, i, false, Y, m, d, h, mi, s) <= 0 {
			ke++
		}
	}
	yin := (specMod(Y-4, 10)%5 + 1) * 2 // stem of the yin month that starts at Lichun of Y
	vAssert("month-zhi", l.monthZhiIndex == specMod(k+11, 12))
	vAssert("month-gan", l.monthGanIndex == specMod(yin+k-3, 10))
	vAssert("month-zhi-exact", l.monthZhiIndexExact == specMod(ke+11, 12))
	vAssert("month-gan-exact", l.monthGanIndexExact == specMod(yin+ke-3, 10))
	vAssert("month-parity", l.monthGanIndex%2 == l.monthZhiIndex%2 && l.monthGanIndexExact%2 == l.monthZhiIndexExact%2)
	vAssert("year-parity", l.yearGanIndex%2 == l.yearZhiIndex%2 && l.yearGanIndexByLiChun%2 == l.yearZhiIndexByLiChun%2 && l.yearGanIndexExact%2 == l.yearZhiIndexExact%2)
	// the objects through which the pillars are read under a chosen day convention: the hour object and the chart
	vEach(func() {
		t := l.GetTime()
		vAssert("hour-object-pillar", t.GetZhiIndex() == ((h+1)/2)%12 && t.GetGanIndex() == (2*(l.dayGanIndexExact%5)+t.GetZhiIndex())%10)
	})
	// the thirteen hour objects of the day (00:00, then every odd hour; the last one is the 23:00 early-rat slot)
	vEach(func() {
		ts := l.GetTimes()
		ok := len(ts) == 13
		for i := 0; ok && i < 13; i++ {
			hh := 0
			if i > 0 {
				hh = 2*i - 1
			}
			late := 0
			if hh == 23 {
				late = 1
			}
			z := ((hh + 1) / 2) % 12
			g := (2*((l.dayGanIndex+late)%10%5) + z) % 10
			ok = ts[i] != nil && ts[i].GetZhiIndex() == z && ts[i].GetGanIndex() == g
		}
		vAssert("hour-objects-of-the-day", ok)
	})
	vEach(func() {
		ec := l.GetEightChar()
		ec.SetSect(1)
		vAssert("chart-day-early-rat", ec.GetDayGanIndex() == l.dayGanIndexExact && ec.GetDayZhiIndex() == l.dayZhiIndexExact &&
			ec.GetDayGan() == LunarUtil.GAN[l.dayGanIndexExact+1] && ec.GetDayZhi() == LunarUtil.ZHI[l.dayZhiIndexExact+1])
		ec.SetSect(2)
		vAssert("chart-day-late-rat", ec.GetDayGanIndex() == l.dayGanIndex && ec.GetDayZhiIndex() == l.dayZhiIndex &&
			ec.GetDayGan() == LunarUtil.GAN[l.dayGanIndex+1] && ec.GetDayZhi() == LunarUtil.ZHI[l.dayZhiIndex+1])
		vAssert("chart-hour", ec.GetTimeGan() == LunarUtil.GAN[l.timeGanIndex+1] && ec.GetTimeZhi() == LunarUtil.ZHI[l.timeZhiIndex+1])
	})
	vReach("C05b")
}
