package calendar

// C05-H1: day and hour pillars (year-symbolic, in-package: the real computeDay / computeTime).
func VH_C05_DayTime() {
	y, m, d := vhDate("")
	h, mi, s := vInt("h", 0, 23), vInt("mi", 0, 59), vInt("s", 0, 59)
	l := &Lunar{solar: NewSolar(y, m, d, h, mi, s), hour: h, minute: mi, second: s}
	computeDay(l)
	computeTime(l)
	noon := NewSolar(y, m, d, 12, 0, 0)
	vAssert("jdn-lemma", int(noon.GetJulianDay()) == specJDN(y, m, d))
	idx := (specJDN(y, m, d) + 49) % 60
	vAssert("day-gan", l.dayGanIndex == idx%10)
	vAssert("day-zhi", l.dayZhiIndex == idx%12)
	vAssert("exact2-is-plain", l.dayGanIndexExact2 == l.dayGanIndex && l.dayZhiIndexExact2 == l.dayZhiIndex)
	late := 0
	if h == 23 {
		late = 1
	}
	vAssert("exact-gan", l.dayGanIndexExact == (idx+late)%10)
	vAssert("exact-zhi", l.dayZhiIndexExact == (idx+late)%12)
	vAssert("time-zhi", l.timeZhiIndex == ((h+1)/2)%12)
	vAssert("time-gan", l.timeGanIndex == (2*(l.dayGanIndexExact%5)+l.timeZhiIndex)%10)
	vAssert("time-parity", l.timeGanIndex%2 == l.timeZhiIndex%2)
	vReach("C05a")
}
