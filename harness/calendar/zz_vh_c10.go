package calendar

// slot identity of a moment under a day-boundary convention: sect 1 (early rat) joins 23:00-23:59 to the next
// day's 00:00-00:59; sect 2 keeps the late-rat hour as its own slot of the same day
func specSlotId(sect, jdn, h int) int {
	if sect == 1 {
		if h == 23 {
			return (jdn+1)*12 + 0
		}
		return jdn*12 + ((h+1)/2)%12
	}
	if h == 23 {
		return jdn*13 + 12
	}
	return jdn*13 + ((h+1)/2)%12
}

// C10: eight-character reverse lookup is sound, complete and sorted, for every moment of a concrete month.
func VH_C10_Reverse() {
	Y, m, d, h, mi, s := vhMoment()
	sect := vParam("SECT")
	base := vParam("BASE")
	// window: the Jie day of this civil month (WIN=2), the three days around it (WIN=1), or the remaining days (WIN=0)
	ref := NewSolar(Y, m, 15, 0, 0, 0).GetLunar()
	jd := 0
	for i := 0; i < len(JIE_QI_IN_USE); i += 2 {
		e := ref.jieQi[JIE_QI_IN_USE[i]]
		if e.year == Y && e.month == m {
			jd = e.day
		}
	}
	if vParam("WIN") == 2 {
		vAssume(d == jd)
	} else if vParam("WIN") == 1 {
		vAssume(d >= jd-1 && d <= jd+1)
	} else {
		vAssume(d < jd-1 || d > jd+1)
	}
	l := NewSolar(Y, m, d, h, mi, s).GetLunar()
	ec := l.GetEightChar()
	ec.SetSect(sect)
	py, pm, pd, pt := ec.GetYear(), ec.GetMonth(), ec.GetDay(), ec.GetTime()
	// the property speaks about moments from the first Jie (Xiaohan) of the base year on
	xh := NewSolar(base, 6, 15, 0, 0, 0).GetLunar().jieQi["小寒"]
	vAssume(specCmp6(Y, m, d, h, mi, s, xh.year, xh.month, xh.day, xh.hour, xh.minute, xh.second) >= 0)
	L := ListSolarFromBaZiBySectAndBaseYear(py, pm, pd, pt, sect, base)
	want := specSlotId(sect, specJDN(Y, m, d), h)
	found := false
	prevKey := -1
	n := 0
	for e := L.Front(); e != nil; e = e.Next() {
		x := e.Value.(*Solar)
		n++
		if specSlotId(sect, specJDN(x.year, x.month, x.day), x.hour) == want {
			found = true
		}
		vAssert("not-before-base", x.year >= base)
		// soundness: the forward pillars of every returned moment are the queried ones
		xl := x.GetLunar()
		xe := xl.GetEightChar()
		xe.SetSect(sect)
		vAssert("sound:year", xe.GetYear() == py)
		vAssert("sound:month", xe.GetMonth() == pm)
		vAssert("sound:day", xe.GetDay() == pd)
		vAssert("sound:time", xe.GetTime() == pt)
		key := (specJDN(x.year, x.month, x.day)*24+x.hour)*3600 + x.minute*60 + x.second
		vAssert("strictly-increasing", key > prevKey)
		prevKey = key
	}
	// classify: is t in the first (odd) hour of a two-hour slot that contains a Jie instant later than t?
	beforeJie := false
	for i := 0; i < len(JIE_QI_IN_USE); i += 2 {
		e := l.jieQi[JIE_QI_IN_USE[i]]
		if e.year == Y && e.month == m && e.day == d && e.hour == h && h%2 == 1 && specCmp6(Y, m, d, h, mi, s, e.year, e.month, e.day, e.hour, e.minute, e.second) < 0 {
			beforeJie = true
		}
	}
	if beforeJie {
		vAssert("complete:odd-hour-before-jie-instant", found)
	} else {
		vAssert("complete", found)
	}
	if sect == 2 {
		// the default school of the short forms is 2
		L2 := ListSolarFromBaZiBySect(py, pm, pd, pt, 2)
		if base == 1900 {
			vAssert("default-base", L2.Len() == n)
		}
	}
	vReach("C10a")
}
