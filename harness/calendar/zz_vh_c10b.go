package calendar

// C10b: the convenience variants document their defaults (late-rat convention 2, base year 1900): for a moment whose
// hour is case-split by the solver, the 4-argument and the 5-argument lookups return exactly the list of the explicit
// call, and under the default convention that list contains the moment's slot (23:00-23:59 included).
func VH_C10_DefaultRoute() {
	Y, m, d := vParam("Y"), vParam("M"), vParam("D")
	h := vConcretize(vInt("h", 0, 23))
	mi, s := vInt("mi", 0, 59), vInt("s", 0, 59)
	l := NewSolar(Y, m, d, h, mi, s).GetLunar()
	ec := l.GetEightChar()
	same := func(a, b *Solar) bool {
		return a.year == b.year && a.month == b.month && a.day == b.day && a.hour == b.hour && a.minute == b.minute && a.second == b.second
	}
	for _, sect := range []int{2, 1} {
		ec.SetSect(sect)
		py, pm, pd, pt := ec.GetYear(), ec.GetMonth(), ec.GetDay(), ec.GetTime()
		ref := ListSolarFromBaZiBySectAndBaseYear(py, pm, pd, pt, sect, 1900)
		by := ListSolarFromBaZiBySect(py, pm, pd, pt, sect)
		ok := by.Len() == ref.Len()
		for a, b := ref.Front(), by.Front(); ok && a != nil; a, b = a.Next(), b.Next() {
			ok = same(a.Value.(*Solar), b.Value.(*Solar))
		}
		vAssert("route:by-sect=base-1900", ok)
		if sect == 2 {
			def := ListSolarFromBaZi(py, pm, pd, pt)
			ok = def.Len() == ref.Len()
			found := false
			for a, b := ref.Front(), def.Front(); ok && a != nil; a, b = a.Next(), b.Next() {
				ok = same(a.Value.(*Solar), b.Value.(*Solar))
				x := b.Value.(*Solar)
				if x.year == Y && x.month == m && x.day == d && (x.hour+1)/2 == (h+1)/2 {
					found = true
				}
			}
			vAssert("route:default=sect-2-base-1900", ok)
			// completeness itself is C10a's subject; its known gap K3 (a moment in the odd first hour of a slot, before a Jie
			// instant falling in that hour) is excluded here exactly as there
			inK3 := false
			for i := 0; i < len(JIE_QI_IN_USE); i += 2 {
				e := l.jieQi[JIE_QI_IN_USE[i]]
				if e.year == Y && e.month == m && e.day == d && e.hour == h && h%2 == 1 && specCmp6(Y, m, d, h, mi, s, e.year, e.month, e.day, e.hour, e.minute, e.second) < 0 {
					inK3 = true
				}
			}
			if !inK3 {
				vAssert("default-finds-the-moment", found)
			}
		}
	}
	vReach("C10b")
}
