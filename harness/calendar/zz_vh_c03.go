package calendar

// C03: solar-term lookup semantics for every moment of a concrete year.

// specTermCmp compares entry i of the (concrete) term table with the moment now.
func specTermCmp(l *Lunar, i int, wholeDay bool, Y, m, d, h, mi, s int) int {
	e := l.jieQi[JIE_QI_IN_USE[i]]
	if wholeDay {
		return specCmp6(e.year, e.month, e.day, 0, 0, 0, Y, m, d, 0, 0, 0)
	}
	return specCmp6(e.year, e.month, e.day, e.hour, e.minute, e.second, Y, m, d, h, mi, s)
}

func specTermEntryCmp(l *Lunar, i, j int, wholeDay bool) int {
	a, b := l.jieQi[JIE_QI_IN_USE[i]], l.jieQi[JIE_QI_IN_USE[j]]
	if wholeDay {
		return specCmp6(a.year, a.month, a.day, 0, 0, 0, b.year, b.month, b.day, 0, 0, 0)
	}
	return specCmp6(a.year, a.month, a.day, a.hour, a.minute, a.second, b.year, b.month, b.day, b.hour, b.minute, b.second)
}

// kind: 0 all, 1 jie (even table positions), 2 qi (odd positions)
func specNear(l *Lunar, forward bool, kind int, wholeDay bool, Y, m, d, h, mi, s int) int {
	want := -1
	for i := range JIE_QI_IN_USE {
		if kind == 1 && i%2 != 0 || kind == 2 && i%2 != 1 {
			continue
		}
		c := specTermCmp(l, i, wholeDay, Y, m, d, h, mi, s)
		if forward {
			// earliest entry strictly after now
			if c > 0 && (want < 0 || specTermEntryCmp(l, i, want, wholeDay) < 0) {
				want = i
			}
		} else {
			// latest entry at or before now
			if c <= 0 && (want < 0 || specTermEntryCmp(l, i, want, wholeDay) > 0) {
				want = i
			}
		}
	}
	return want
}

func vhTermIndex(l *Lunar, q *JieQi) int {
	for i, k := range JIE_QI_IN_USE {
		if l.jieQi[k] == q.solar {
			return i
		}
	}
	return -2
}

func vhNear(l *Lunar, forward bool, kind int, wholeDay bool) *JieQi {
	switch {
	case forward && kind == 0:
		return l.GetNextJieQiByWholeDay(wholeDay)
	case forward && kind == 1:
		return l.GetNextJieByWholeDay(wholeDay)
	case forward && kind == 2:
		return l.GetNextQiByWholeDay(wholeDay)
	case kind == 0:
		return l.GetPrevJieQiByWholeDay(wholeDay)
	case kind == 1:
		return l.GetPrevJieByWholeDay(wholeDay)
	}
	return l.GetPrevQiByWholeDay(wholeDay)
}

func VH_C03_Near() {
	Y, m, d, h, mi, s := vhMoment()
	l := NewSolar(Y, m, d, h, mi, s).GetLunar()
	for _, forward := range []bool{true, false} {
		for kind := 0; kind < 3; kind++ {
			for _, wholeDay := range []bool{false, true} {
				forward, kind, wholeDay := forward, kind, wholeDay
				tag := "prev"
				if forward {
					tag = "next"
				}
				tag += []string{"-jieqi", "-jie", "-qi"}[kind]
				if wholeDay {
					tag += "-wholeday"
				}
				vEach(func() {
					got := vhNear(l, forward, kind, wholeDay)
					want := specNear(l, forward, kind, wholeDay, Y, m, d, h, mi, s)
					vAssert(tag+":nil-iff-none", (got == nil) == (want < 0))
					if got != nil {
						gi := vhTermIndex(l, got)
						vAssert(tag+":entry", gi == want)
						if gi >= 0 {
							vAssert(tag+":name", got.GetName() == convertJieQi(JIE_QI_IN_USE[gi]))
							vAssert(tag+":kind", got.IsJie() == (gi%2 == 0) && got.IsQi() == (gi%2 == 1))
						}
					}
				})
			}
		}
	}
	// default (instant-level) variants are the wholeDay=false ones
	vEach(func() {
		a, b := l.GetNextJieQi(), l.GetNextJieQiByWholeDay(false)
		vAssert("next-default", (a == nil) == (b == nil) && (a == nil || a.solar == b.solar))
		c, e := l.GetPrevJieQi(), l.GetPrevJieQiByWholeDay(false)
		vAssert("prev-default", (c == nil) == (e == nil) && (c == nil || c.solar == e.solar))
	})
	// the term named for today is the one whose instant falls on this civil day
	vEach(func() {
		want := -1
		for i := range JIE_QI_IN_USE {
			if want < 0 && specTermCmp(l, i, true, Y, m, d, 0, 0, 0) == 0 {
				want = i
			}
		}
		name := l.GetJieQi()
		vAssert("today:none", (name == "") == (want < 0))
		if want >= 0 {
			w := vConcretize(want)
			vAssert("today:name", name == convertJieQi(JIE_QI_IN_USE[w]))
			cur := l.GetCurrentJieQi()
			vAssert("today:current", cur != nil && cur.GetName() == name && cur.solar == l.solar)
			if w%2 == 0 {
				vAssert("today:jie", l.GetJie() == name && l.GetQi() == "" && l.GetCurrentJie() != nil && l.GetCurrentQi() == nil)
			} else {
				vAssert("today:qi", l.GetQi() == name && l.GetJie() == "" && l.GetCurrentQi() != nil && l.GetCurrentJie() == nil)
			}
		} else {
			vAssert("today:nil", l.GetCurrentJieQi() == nil && l.GetJie() == "" && l.GetQi() == "")
		}
	})
	// table shape: 31 entries in canonical key order
	n := 0
	for i := l.GetJieQiList().Front(); i != nil; i = i.Next() {
		vAssert("list-order", n < len(JIE_QI_IN_USE) && i.Value.(string) == JIE_QI_IN_USE[n])
		n++
	}
	vAssert("list-len", n == 31 && len(l.GetJieQiTable()) == 31)
	vReach("C03a")
}

// concrete per-year facts about the table (strictly increasing instants, valid dates): executed, no symbolic input
func VH_C03_Table() {
	Y := vParam("Y")
	l := NewSolar(Y, 6, 15, 0, 0, 0).GetLunar()
	secOf := func(a *Solar) int { return specJDN(a.year, a.month, a.day)*86400 + a.hour*3600 + a.minute*60 + a.second }
	for i := 1; i < len(JIE_QI_IN_USE); i++ {
		vAssert("increasing", specTermEntryCmp(l, i-1, i, false) < 0)
		a, b := l.jieQi[JIE_QI_IN_USE[i-1]], l.jieQi[JIE_QI_IN_USE[i]]
		gap := specJDN(b.year, b.month, b.day) - specJDN(a.year, a.month, a.day)
		vAssert("spacing-days", gap >= 14 && gap <= 16)
		// 14.6 .. 15.8 days, in seconds
		gs := secOf(b) - secOf(a)
		vAssert("spacing-14.6-15.8-days", gs >= 1261440 && gs <= 1365120)
	}
	// each entry is the year's own instant (raw Julian Day of the lunar-year object) rounded to the second; the
	// independent rounding below is skipped when the instant is within a millisecond of a half second
	jds := NewLunarYear(l.year).jieQiJulianDays
	vAssert("table-length", len(jds) == len(JIE_QI_IN_USE) && len(l.jieQi) == len(JIE_QI_IN_USE))
	for i, name := range JIE_QI_IN_USE {
		x := jds[i] + 0.5
		N := int(x)
		fs := (x - float64(N)) * 86400
		sec := int(fs + 0.5)
		if d := fs - float64(int(fs)) - 0.5; d > -0.001 && d < 0.001 {
			continue
		}
		vAssert("entry-is-instant", secOf(l.jieQi[name]) == N*86400+sec)
	}
	// tables of adjacent years give the same instant for the seven terms they share
	if Y+1 <= 9998 {
		n := NewSolar(Y+1, 6, 15, 0, 0, 0).GetLunar()
		for k := 0; k < 7; k++ {
			a, b := l.jieQi[JIE_QI_IN_USE[24+k]], n.jieQi[JIE_QI_IN_USE[k]]
			vAssert("adjacent-years-agree", secOf(a) == secOf(b))
		}
	}
	vReach("C03t")
}
