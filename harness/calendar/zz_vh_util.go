package calendar

import "github.com/6tail/lunar-go/SolarUtil"

func vhDaysOfMonth(y, m int) int { return SolarUtil.GetDaysOfMonth(y, m) }
func vhDaysOfYear(y int) int     { return SolarUtil.GetDaysOfYear(y) }
