package calendar

import "github.com/6tail/lunar-go/SolarUtil"

func specWeekday(y, m, d int) int { return (specJDN(y, m, d) + 1) % 7 }

// existing days of a month (1582-10 has 21)
func specDaysIn(y, m int) int {
	if y == 1582 && m == 10 {
		return 21
	}
	return specLastDay(y, m)
}

// ordinal of day d within its month counting only existing days (1-based)
func specDayOrd(y, m, d int) int {
	if y == 1582 && m == 10 && d >= 15 {
		return d - 10
	}
	return d
}

// number of weeks (with first weekday `start`) that meet month (y,m)
func specWeeksOfMonth(y, m, start int) int {
	off := specMod(specWeekday(y, m, 1)-start, 7)
	return (specDaysIn(y, m) + off + 6) / 7
}

func vhWeekLemmas(y, m, d int) {
	// cube on the weekday of the date: a ghost input tied to the spec
	wd := vInt("wd", 0, 6)
	vAssume(specWeekday(y, m, d) == wd)
	s := NewSolar(y, m, d, 0, 0, 0)
	vAssert("jdn-lemma", int(s.GetJulianDay()+0.5) == specJDN(y, m, d))
	vAssert("week-lemma", s.GetWeek() == specWeekday(y, m, d))
	if d != 1 {
		s1 := NewSolar(y, m, 1, 0, 0, 0)
		vAssert("jdn-lemma-1st", int(s1.GetJulianDay()+0.5) == specJDN(y, m, 1))
		vAssert("week-lemma-1st", s1.GetWeek() == specWeekday(y, m, 1))
	}
	if m != 1 {
		s0 := NewSolar(y, 1, 1, 0, 0, 0)
		vAssert("jdn-lemma-jan1", int(s0.GetJulianDay()+0.5) == specJDN(y, 1, 1))
		vAssert("week-lemma-jan1", s0.GetWeek() == specWeekday(y, 1, 1))
	}
}

// C15a: a week is the seven consecutive days from its first weekday that contain its date; indices count week starts.
func VH_C15_Week() {
	y, m, d := vhDate("")
	start := vInt("start", 0, 6)
	vAssume(y >= 2)
	vhWeekLemmas(y, m, d)
	w := NewSolarWeekFromYmd(y, m, d, start)
	T := specJDN(y, m, d)
	f := w.GetFirstDay()
	vAssert("firstday-lemma", int(f.GetJulianDay()+0.5) == specJDN(f.year, f.month, f.day))
	F := specJDN(f.year, f.month, f.day)
	vAssert("firstday-weekday", f.GetWeek() == start)
	vAssert("firstday-contains", F <= T && T-F < 7)
	vEach(func() {
		k := 0
		for i := w.GetDays().Front(); i != nil; i = i.Next() {
			x := i.Value.(*Solar)
			vAssert("days-consecutive", specJDN(x.year, x.month, x.day) == F+k)
			k++
		}
		vAssert("days-seven", k == 7)
	})
	vEach(func() {
		w1 := specWeekday(y, m, 1)
		vAssert("w1-lemma", NewSolarFromYmd(y, m, 1).GetWeek() == w1)
		off := specMod(w1-start, 7)
		vAssert("index-in-month", w.GetIndex() == (specDayOrd(y, m, d)-1+off)/7+1 || (y == 1582 && m == 10))
		vAssert("weeks-of-month", SolarUtil.GetWeeksOfMonth(y, m, start) == specWeeksOfMonth(y, m, start))
	})
	vEach(func() {
		wy := specWeekday(y, 1, 1)
		vAssert("wy-lemma", NewSolarFromYmd(y, 1, 1).GetWeek() == wy)
		offy := specMod(wy-start, 7)
		doy := T - specJDN(y, 1, 1) + 1
		vAssert("index-in-year", w.GetIndexInYear() == (doy-1+offy)/7+1)
	})
	vEach(func() {
		var n int
		vAssert("days-in-month-no-panic", !vPanics(func() { n = w.GetDaysInMonth().Len() }))
		// the days of the week that lie in the week's month
		cnt := 0
		for k := 0; k < 7; k++ {
			x := f.NextDay(k)
			if x.month == m {
				cnt++
			}
		}
		vAssert("days-in-month-count", n == cnt)
		fm := w.GetFirstDayInMonth()
		vAssert("first-day-in-month", fm != nil && fm.month == m && (fm.day == 1 || (fm.year == f.year && fm.month == f.month && fm.day == f.day)))
	})
	vReach("C15a")
}

// C15b: moving n whole weeks equals moving 7n days; forward then back returns to the start.
func VH_C15_WeekNext() {
	y, m, d := vhDate("")
	start := vInt("start", 0, 6)
	N := vParam("N")
	n := vInt("n", -N, N)
	vAssume(y >= 3 && y <= 9996)
	w := NewSolarWeekFromYmd(y, m, d, start)
	t := w.Next(n, false)
	u := NewSolarFromYmd(y, m, d).NextDay(7 * n)
	vAssert("next-is-7n-days", t.year == u.year && t.month == u.month && t.day == u.day && t.start == start)
	b := t.Next(-n, false)
	vAssert("next-inverse", b.year == y && b.month == m && b.day == d)
	vReach("C15b")
}

// position of a week object in the month-separated sequence
func vhPos(w *SolarWeek) (int, int, int) { return w.year, w.month, w.GetIndex() }

// C15c: month-separated stepping walks (month, week 1..k), (next month, week 1..) one position per step.
func VH_C15_WeekNextSeparate() {
	y, m, d := vhDate("")
	start := vInt("start", 0, 6)
	vAssume(y >= 3 && y <= 9996 && !(y == 1582 && m >= 9 && m <= 11))
	vhWeekLemmas(y, m, d)
	w := NewSolarWeekFromYmd(y, m, d, start)
	w1 := specWeekday(y, m, 1)
	vAssert("w1-lemma", NewSolarFromYmd(y, m, 1).GetWeek() == w1)
	idx := (d-1+specMod(w1-start, 7))/7 + 1
	W := specWeeksOfMonth(y, m, start)
	vEach(func() {
		nx := w.Next(1, true)
		py, pm, pi := vhPos(nx)
		if idx < W {
			vAssert("sep-next-same-month", py == y && pm == m && pi == idx+1)
		} else {
			ny, nm := y, m+1
			if nm > 12 {
				ny, nm = y+1, 1
			}
			vAssert("sep-next-month-first", py == ny && pm == nm && pi == 1)
		}
	})
	vEach(func() {
		pv := w.Next(-1, true)
		py, pm, pi := vhPos(pv)
		if idx > 1 {
			vAssert("sep-prev-same-month", py == y && pm == m && pi == idx-1)
		} else {
			qy, qm := y, m-1
			if qm < 1 {
				qy, qm = y-1, 12
			}
			vAssert("sep-prev-month-last", py == qy && pm == qm && pi == specWeeksOfMonth(qy, vConcretize(qm), start))
		}
	})
	vEach(func() {
		z := w.Next(0, true)
		vAssert("sep-zero", z.year == y && z.month == m && z.day == d)
	})
	// several steps in one call walk the same sequence as single steps (the one-step law above then gives every n by induction
	// on the call's own loop: the loop state after k steps is compared with a fresh start from the k-th position)
	samePos := func(a, b *SolarWeek) bool {
		ay, am, ai := vhPos(a)
		by, bm, bi := vhPos(b)
		return ay == by && am == bm && ai == bi && a.start == b.start
	}
	for _, k := range []int{2, 3} {
		k := k
		vEach(func() {
			vAssert("sep-multi-forward", samePos(w.Next(k, true), w.Next(k-1, true).Next(1, true)))
		})
		vEach(func() {
			vAssert("sep-multi-backward", samePos(w.Next(-k, true), w.Next(-(k-1), true).Next(-1, true)))
		})
	}
	vReach("C15c")
}

// C15d: months list each existing day once in order; Next(n) is ordinal arithmetic; seasons/half-years/years.
func VH_C15_Month() {
	y, m, _ := vhDate("")
	sm := NewSolarMonthFromYm(y, m)
	vEach(func() {
		prev := 0
		k := 0
		for i := sm.GetDays().Front(); i != nil; i = i.Next() {
			x := i.Value.(*Solar)
			j := specJDN(x.year, x.month, x.day)
			vAssert("month-days-in-month", x.year == y && x.month == m)
			if k > 0 {
				vAssert("month-days-consecutive", j == prev+1)
			} else {
				vAssert("month-days-first", x.day == 1)
			}
			prev = j
			k++
		}
		vAssert("month-days-count", k == specDaysIn(y, m))
	})
	K := vParam("K")
	n := vInt("n", -K, K)
	ord := y*12 + (m - 1) + n
	vAssume(ord >= 12 && ord < 9999*12)
	t := sm.Next(n)
	vAssert("month-next", t.year == ord/12 && t.month == ord%12+1)
	b := t.Next(-n)
	vAssert("month-next-inverse", b.year == y && b.month == m)
	// seasons, half-years, years
	ss := NewSolarSeasonFromYm(y, m)
	vAssert("season-index", ss.GetIndex() == (m+2)/3)
	hy := NewSolarHalfYearFromYm(y, m)
	vAssert("halfyear-index", hy.GetIndex() == (m+5)/6)
	vEach(func() {
		k := 0
		for i := ss.GetMonths().Front(); i != nil; i = i.Next() {
			x := i.Value.(*SolarMonth)
			vAssert("season-months", x.year == y && x.month == ((m-1)/3)*3+1+k)
			k++
		}
		vAssert("season-three", k == 3)
		k = 0
		for i := hy.GetMonths().Front(); i != nil; i = i.Next() {
			x := i.Value.(*SolarMonth)
			vAssert("halfyear-months", x.year == y && x.month == ((m-1)/6)*6+1+k)
			k++
		}
		vAssert("halfyear-six", k == 6)
		k = 0
		for i := NewSolarYearFromYear(y).GetMonths().Front(); i != nil; i = i.Next() {
			x := i.Value.(*SolarMonth)
			vAssert("year-months", x.year == y && x.month == 1+k)
			k++
		}
		vAssert("year-twelve", k == 12)
	})
	q := vInt("q", -K/3, K/3)
	vAssume(y*4+(m-1)/3+q >= 4 && y*4+(m-1)/3+q < 9999*4)
	s2 := ss.Next(q)
	vAssert("season-next", s2.year*4+(s2.month-1)/3 == y*4+(m-1)/3+q)
	s3 := s2.Next(-q)
	vAssert("season-inverse", s3.year == y && (s3.month-1)/3 == (m-1)/3)
	h2 := hy.Next(q / 2)
	vAssert("halfyear-next", h2.year*2+(h2.month-1)/6 == y*2+(m-1)/6+q/2)
	h3 := h2.Next(-(q / 2))
	vAssert("halfyear-inverse", h3.year == y && (h3.month-1)/6 == (m-1)/6)
	vAssert("year-next", NewSolarYearFromYear(y).Next(q).Next(-q).year == y)
	vReach("C15d")
}

// C15e: the weeks of a month are exactly the distinct weeks meeting it.
func VH_C15_MonthWeeks() {
	y, m, _ := vhDate("")
	start := vInt("start", 0, 6)
	vAssume(!(y == 1582 && m == 10) && y >= 2 && y <= 9997)
	vhWeekLemmas(y, m, 1)
	sm := NewSolarMonthFromYm(y, m)
	k := 0
	for i := sm.GetWeeks(start).Front(); i != nil; i = i.Next() {
		k++
	}
	vAssert("weeks-list-len", k == specWeeksOfMonth(y, m, start))
	vAssert("weeks-count-agrees", k == SolarUtil.GetWeeksOfMonth(y, m, start))
	vReach("C15e")
}
