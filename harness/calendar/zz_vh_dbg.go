package calendar

func VH_DBG_Fu() {
	Y, m, d, h, mi, s := vhMoment()
	l := NewSolar(Y, m, d, h, mi, s).GetLunar()
	fu := l.GetFu()
	if fu != nil {
		vDump("idx", fu.GetIndex())
		vDump("name", fu.GetName())
		vDump("d", d)
	}
	vReach("dbg")
}
