package calendar

func VH_DBG_Year() {
	ya := vInt("ya", 10, 99)
	a := vhLunarYmd(ya, 1, 1)
	vDump("lib", a.GetYearInChinese())
	vDump("spec", specYearInChinese(ya, 2))
	vAssert("eq", a.GetYearInChinese() == specYearInChinese(ya, 2))
	vReach("dbg")
}
