package calendar

func VH_DBG_Field() {
	vhFieldLevel = true
	base := NewSolar(vParam("Y"), 6, 15, 12, 0, 0).GetLunar()
	l := vhLunarSym("", base)
	vAssert("mxe:no-panic", !vPanics(func() { l.GetMonthXunExact() }))
	f := l.GetFoto()
	vAssert("xiu:no-panic", !vPanics(func() { f.GetXiu() }))
	vReach("dbg")
}
