package calendar

import "container/list"

// vhFieldLevel: set by field-level harnesses; accessors that build another date from (year, month, day) are skipped there
var vhFieldLevel = false

// vhRealOnly: set by the per-year harness; accessors already covered for all InvLunar states by C08a are not repeated
var vhRealOnly = false

// list results: non-nil, string elements non-empty and pairwise distinct
func vhListOK(l *list.List) bool {
	if l == nil {
		return false
	}
	ok := true
	for i := l.Front(); i != nil; i = i.Next() {
		s, isStr := i.Value.(string)
		if !isStr {
			continue
		}
		if s == "" {
			ok = false
		}
		for j := i.Next(); j != nil; j = j.Next() {
			if t, isStr2 := j.Value.(string); isStr2 && t == s {
				ok = false
			}
		}
	}
	return ok
}

func vhStringsOK(ss []string) bool {
	ok := true
	for _, s := range ss {
		if s == "" {
			ok = false
		}
	}
	return ok
}

// vhLunarSym: a Lunar whose pillar fields are symbolic under the class invariant InvLunar (DESIGN.md §2.9).
// Term table and civil date are those of a real (concrete) day; the invariant's clauses are exactly what
// the per-year harnesses C05a/C05b/C01 prove about constructed objects.
func vhLunarSym(tag string, base *Lunar) *Lunar {
	c := *base
	l := &c
	l.eightChar = nil
	l.month = vInt(tag+"mo", -12, 12)
	vAssume(l.month != 0)
	l.day = vInt(tag+"dy", 1, 30)
	l.hour, l.minute = vInt(tag+"h", 0, 23), vInt(tag+"mi", 0, 59)
	// year pillars: New-Year convention from the lunar year; by-Lichun / exact within one step, exact lags by-Lichun by 0 or 1
	yi := specMod(l.year-4, 60)
	dl := vInt(tag+"dl", -1, 1)
	de := vInt(tag+"de", 0, 1)
	yl := specMod(yi+dl, 60)
	ye := specMod(yi+dl-de, 60)
	vAssume(dl-de >= -1)
	l.yearGanIndex, l.yearZhiIndex = yi%10, yi%12
	l.yearGanIndexByLiChun, l.yearZhiIndexByLiChun = yl%10, yl%12
	l.yearGanIndexExact, l.yearZhiIndexExact = ye%10, ye%12
	// month pillars: exact equals plain or is one step behind
	mi := vInt(tag+"mp", 0, 59)
	me := specMod(mi-vInt(tag+"mlag", 0, 1), 60)
	l.monthGanIndex, l.monthZhiIndex = mi%10, mi%12
	l.monthGanIndexExact, l.monthZhiIndexExact = me%10, me%12
	// day pillars
	di := vInt(tag+"dp", 0, 59)
	late := 0
	if l.hour == 23 {
		late = 1
	}
	dx := (di + late) % 60
	l.dayGanIndex, l.dayZhiIndex = di%10, di%12
	l.dayGanIndexExact2, l.dayZhiIndexExact2 = di%10, di%12
	l.dayGanIndexExact, l.dayZhiIndexExact = dx%10, dx%12
	l.timeZhiIndex = ((l.hour + 1) / 2) % 12
	l.timeGanIndex = (l.dayGanIndexExact%5*2 + l.timeZhiIndex) % 10
	l.weekIndex = vInt(tag+"wk", 0, 6)
	return l
}

// C08a (field-level): every accessor of the lunar date and of the objects that wrap it is total and well-formed
// on every state satisfying InvLunar.
func VH_C08_Field() {
	vhFieldLevel = true
	base := NewSolar(vParam("Y"), 6, 15, 12, 0, 0).GetLunar()
	l := vhLunarSym("", base)
	vhAcc_Lunar(l)
	ec := l.GetEightChar()
	ec.SetSect(vParam("SECT"))
	vhAcc_EightChar(ec)
	vhAcc_Tao(l.GetTao())
	vhAcc_Foto(l.GetFoto())
	// the hour object of the same state (NewLunarTime stores exactly these two indices next to the lunar date)
	t := &LunarTime{lunar: l, zhiIndex: l.timeZhiIndex, ganIndex: l.timeGanIndex}
	vhAcc_LunarTime(t)
	vhFieldLevel = false
	vReach("C08a")
}

// C08b (per-year): every accessor on the real objects of every moment of a concrete year.
func VH_C08_Year() {
	vhRealOnly = true
	Y, m, d, h, mi, s := vhMoment()
	sol := NewSolar(Y, m, d, h, mi, s)
	vhAcc_Solar(sol)
	l := sol.GetLunar()
	vhAcc_Lunar(l)
	ec := l.GetEightChar()
	ec.SetSect(vParam("SECT"))
	vhAcc_EightChar(ec)
	vhAcc_Tao(l.GetTao())
	vhAcc_Foto(l.GetFoto())
	vEach(func() {
		var t *LunarTime
		vAssert("Lunar.GetTime:no-panic", !vPanics(func() { t = l.GetTime() }))
		vAssert("Lunar.GetTime:state", t != nil && t.zhiIndex == l.timeZhiIndex && t.ganIndex == l.timeGanIndex && t.lunar.year == l.year && t.lunar.month == l.month && t.lunar.day == l.day)
	})
	vEach(func() {
		if sj := l.GetShuJiu(); sj != nil {
			vhAcc_ShuJiu(sj)
		}
		if fu := l.GetFu(); fu != nil {
			vhAcc_Fu(fu)
		}
		if jq := l.GetPrevJieQi(); jq != nil {
			vhAcc_JieQi(jq)
		}
	})
	vEach(func() {
		for i := l.GetFoto().GetFestivals().Front(); i != nil; i = i.Next() {
			vhAcc_FotoFestival(i.Value.(*FotoFestival))
		}
		for i := l.GetTao().GetFestivals().Front(); i != nil; i = i.Next() {
			vhAcc_TaoFestival(i.Value.(*TaoFestival))
		}
	})
	// packed-table scans: pillars concretised by forking over the feasible values of this month
	vEach(func() {
		l.month = vConcretize(l.month)
		l.monthGanIndex, l.monthZhiIndex = vConcretize(l.monthGanIndex), vConcretize(l.monthZhiIndex)
		l.dayGanIndex, l.dayZhiIndex = vConcretize(l.dayGanIndex), vConcretize(l.dayZhiIndex)
		vEach(func() {
			l.GetDayYi()
			l.GetDayJi()
			l.GetDayJiShen()
			l.GetDayXiongSha()
			vAssert("day-yiji-lists", vhListOK(l.GetDayYi()) && vhListOK(l.GetDayJi()) && vhListOK(l.GetDayJiShen()) && vhListOK(l.GetDayXiongSha()))
		})
	})
	vhRealOnly = false
	vReach("C08b")
}

// C08c: lunar year / month objects and the civil containers of a concrete year.
func VH_C08_Containers() {
	Y := vParam("Y")
	ly := NewLunarYear(Y)
	vhAcc_LunarYear(ly)
	for i := ly.months.Front(); i != nil; i = i.Next() {
		vhAcc_LunarMonth(i.Value.(*LunarMonth))
	}
	m, d := vInt("m", 1, 12), vInt("d", 1, 31)
	start := vInt("start", 0, 6)
	vAssume(specValidYmd(Y, m, d) && Y >= 2 && Y <= 9997)
	mm, dd, st := vConcretize(m), vConcretize(d), vConcretize(start)
	vhAcc_SolarWeek(NewSolarWeekFromYmd(Y, mm, dd, st))
	vhAcc_SolarMonth(NewSolarMonthFromYm(Y, mm))
	vhAcc_SolarSeason(NewSolarSeasonFromYm(Y, mm))
	vhAcc_SolarHalfYear(NewSolarHalfYearFromYm(Y, mm))
	vhAcc_SolarYear(NewSolarYearFromYear(Y))
	vReach("C08c")
}

// C08i (per-year): the constructors establish the class invariant InvLunar that the field-level harnesses start from.
func VH_C08_Inv() {
	Y, m, d, h, mi, s := vhMoment()
	l := NewSolar(Y, m, d, h, mi, s).GetLunar()
	in := func(g, z int) bool { return g >= 0 && g <= 9 && z >= 0 && z <= 11 && g%2 == z%2 }
	vAssert("inv:year", in(l.yearGanIndex, l.yearZhiIndex) && in(l.yearGanIndexByLiChun, l.yearZhiIndexByLiChun) && in(l.yearGanIndexExact, l.yearZhiIndexExact))
	vAssert("inv:month", in(l.monthGanIndex, l.monthZhiIndex) && in(l.monthGanIndexExact, l.monthZhiIndexExact))
	vAssert("inv:day", in(l.dayGanIndex, l.dayZhiIndex) && in(l.dayGanIndexExact, l.dayZhiIndexExact) && in(l.dayGanIndexExact2, l.dayZhiIndexExact2))
	vAssert("inv:time", in(l.timeGanIndex, l.timeZhiIndex))
	yi := specMod(l.year-4, 60)
	vAssert("inv:year-plain", l.yearGanIndex == yi%10 && l.yearZhiIndex == yi%12)
	yl, ye := specGZ(l.yearGanIndexByLiChun, l.yearZhiIndexByLiChun), specGZ(l.yearGanIndexExact, l.yearZhiIndexExact)
	dl := specMod(yl-yi+1, 60) - 1
	vAssert("inv:year-lichun-within-one", dl >= -1 && dl <= 1)
	lag := specMod(yl-ye, 60)
	vAssert("inv:year-exact-lags", lag == 0 || lag == 1)
	mp, me := specGZ(l.monthGanIndex, l.monthZhiIndex), specGZ(l.monthGanIndexExact, l.monthZhiIndexExact)
	mlag := specMod(mp-me, 60)
	vAssert("inv:month-exact-lags", mlag == 0 || mlag == 1)
	dp, dx, d2 := specGZ(l.dayGanIndex, l.dayZhiIndex), specGZ(l.dayGanIndexExact, l.dayZhiIndexExact), specGZ(l.dayGanIndexExact2, l.dayZhiIndexExact2)
	late := 0
	if h == 23 {
		late = 1
	}
	vAssert("inv:day-variants", d2 == dp && dx == (dp+late)%60)
	vAssert("inv:time-formula", l.timeZhiIndex == ((h+1)/2)%12 && l.timeGanIndex == (l.dayGanIndexExact%5*2+l.timeZhiIndex)%10)
	vAssert("inv:scalars", l.month != 0 && l.month >= -12 && l.month <= 12 && l.day >= 1 && l.day <= 30 && l.hour == h && l.minute == mi && l.second == s && l.weekIndex >= 0 && l.weekIndex <= 6)
	vAssert("inv:lunar-year", l.year == Y || l.year == Y-1 || l.year == Y+1)
	vReach("C08i")
}

// C08e: the lunar-year object for EVERY year at once (year symbolic).  NewLunarYear's own index arithmetic is executed
// symbolically with the astronomical table computation cut out (vSkipTables); the accessors that depend only on the
// year number and its stem/branch indices are then total and inside their tables.
func VH_C08_YearObjectAll() {
	y := vInt("y", vParam("YLO"), vParam("YHI"))
	CACHE_YEAR = nil
	var ly *LunarYear
	vSkipTables(func() { ly = NewLunarYear(y) })
	vAssert("LunarYear.year", ly.GetYear() == y)
	vAssert("LunarYear.ganIndex:in-table", ly.GetGanIndex() >= 0 && ly.GetGanIndex() <= 9 && ly.GetGanIndex() == specMod(y-4, 10))
	vAssert("LunarYear.zhiIndex:in-table", ly.GetZhiIndex() >= 0 && ly.GetZhiIndex() <= 11 && ly.GetZhiIndex() == specMod(y-4, 12))
	chk := func(id string, f func() string) {
		vEach(func() {
			var r string
			vAssert("LunarYear."+id+":no-panic", !vPanics(func() { r = f() }))
			vAssert("LunarYear."+id+":non-empty", r != "")
		})
	}
	chk("GetGan", ly.GetGan)
	chk("GetZhi", ly.GetZhi)
	chk("GetGanZhi", ly.GetGanZhi)
	chk("GetYuan", ly.GetYuan)
	chk("GetYun", ly.GetYun)
	chk("GetPositionXi", ly.GetPositionXi)
	chk("GetPositionXiDesc", ly.GetPositionXiDesc)
	chk("GetPositionYangGui", ly.GetPositionYangGui)
	chk("GetPositionYangGuiDesc", ly.GetPositionYangGuiDesc)
	chk("GetPositionYinGui", ly.GetPositionYinGui)
	chk("GetPositionYinGuiDesc", ly.GetPositionYinGuiDesc)
	chk("GetPositionFu", ly.GetPositionFu)
	chk("GetPositionFuDesc", ly.GetPositionFuDesc)
	chk("GetPositionFuBySect(1)", func() string { return ly.GetPositionFuBySect(1) })
	chk("GetPositionFuDescBySect(1)", func() string { return ly.GetPositionFuDescBySect(1) })
	chk("GetPositionCai", ly.GetPositionCai)
	chk("GetPositionCaiDesc", ly.GetPositionCaiDesc)
	chk("GetPositionTaiSui", ly.GetPositionTaiSui)
	chk("GetPositionTaiSuiDesc", ly.GetPositionTaiSuiDesc)
	vEach(func() {
		var ns *NineStar
		vAssert("LunarYear.GetNineStar:no-panic", !vPanics(func() { ns = ly.GetNineStar() }))
		vAssert("LunarYear.GetNineStar:in-table", ns != nil && ns.GetIndex() >= 0 && ns.GetIndex() <= 8)
	})
	vReach("C08e")
}
