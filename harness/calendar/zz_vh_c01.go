package calendar

// vhMoment: a symbolic moment of the concrete year Y (unit parameter), optionally restricted to a
// lunar-month window of Y's table so that the month search is (nearly) deterministic per unit.
func vhMoment() (Y, m, d, h, mi, s int) {
	Y = vParam("Y")
	m, d = vInt("m", 1, 12), vInt("d", 1, 31)
	h, mi, s = vInt("h", 0, 23), vInt("mi", 0, 59), vInt("s", 0, 59)
	vAssume(specValidYmd(Y, m, d))
	return
}

// C01-H1: civil -> lunar -> civil, and path independence of the two constructors.
func VH_C01_RoundTrip() {
	Y, m, d, h, mi, s := vhMoment()
	sol := NewSolar(Y, m, d, h, mi, s)
	var l *Lunar
	vAssert("getlunar-no-panic", !vPanics(func() { l = sol.GetLunar() }))
	vAssert("month-found", l.month != 0)
	vAssert("day-range", l.day >= 1 && l.day <= 30)
	var l2 *Lunar
	vAssert("newlunar-no-panic", !vPanics(func() { l2 = NewLunar(l.year, l.month, l.day, h, mi, s) }))
	s2 := l2.solar
	vAssert("round-trip", s2.year == Y && s2.month == m && s2.day == d && s2.hour == h && s2.minute == mi && s2.second == s)
	vAssert("same-indices", l2.yearGanIndex == l.yearGanIndex && l2.yearZhiIndex == l.yearZhiIndex &&
		l2.yearGanIndexByLiChun == l.yearGanIndexByLiChun && l2.yearZhiIndexByLiChun == l.yearZhiIndexByLiChun &&
		l2.yearGanIndexExact == l.yearGanIndexExact && l2.yearZhiIndexExact == l.yearZhiIndexExact &&
		l2.monthGanIndex == l.monthGanIndex && l2.monthZhiIndex == l.monthZhiIndex &&
		l2.monthGanIndexExact == l.monthGanIndexExact && l2.monthZhiIndexExact == l.monthZhiIndexExact &&
		l2.dayGanIndex == l.dayGanIndex && l2.dayZhiIndex == l.dayZhiIndex &&
		l2.dayGanIndexExact == l.dayGanIndexExact && l2.dayZhiIndexExact == l.dayZhiIndexExact &&
		l2.dayGanIndexExact2 == l.dayGanIndexExact2 && l2.dayZhiIndexExact2 == l.dayZhiIndexExact2 &&
		l2.timeGanIndex == l.timeGanIndex && l2.timeZhiIndex == l.timeZhiIndex && l2.weekIndex == l.weekIndex)
	vReach("C01a")
}
