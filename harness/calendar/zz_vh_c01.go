package calendar

// vhMoment: a symbolic moment of the concrete year Y (unit parameter), optionally restricted to a
// lunar-month window of Y's table so that the month search is (nearly) deterministic per unit.
func vhMoment() (Y, m, d, h, mi, s int) {
	Y = vParam("Y")
	m, d = vInt("m", 1, 12), vInt("d", 1, 31)
	h, mi, s = vInt("h", 0, 23), vInt("mi", 0, 59), vInt("s", 0, 59)
	vAssume(specValidYmd(Y, m, d))
	return
}

// C01-H1: civil -> lunar -> civil, and path independence of the two constructors.
func VH_C01_RoundTrip() {
	Y, m, d, h, mi, s := vhMoment()
	sol := NewSolar(Y, m, d, h, mi, s)
	var l *Lunar
	vAssert("getlunar-no-panic", !vPanics(func() { l = sol.GetLunar() }))
	vAssert("month-found", l.month != 0)
	vAssert("day-range", l.day >= 1 && l.day <= 30)
	var l2 *Lunar
	vAssert("newlunar-no-panic", !vPanics(func() { l2 = NewLunar(l.year, l.month, l.day, h, mi, s) }))
	s2 := l2.solar
	vAssert("round-trip", s2.year == Y && s2.month == m && s2.day == d && s2.hour == h && s2.minute == mi && s2.second == s)
	vAssert("same-indices", l2.yearGanIndex == l.yearGanIndex && l2.yearZhiIndex == l.yearZhiIndex &&
		l2.yearGanIndexByLiChun == l.yearGanIndexByLiChun && l2.yearZhiIndexByLiChun == l.yearZhiIndexByLiChun &&
		l2.yearGanIndexExact == l.yearGanIndexExact && l2.yearZhiIndexExact == l.yearZhiIndexExact &&
		l2.monthGanIndex == l.monthGanIndex && l2.monthZhiIndex == l.monthZhiIndex &&
		l2.monthGanIndexExact == l.monthGanIndexExact && l2.monthZhiIndexExact == l.monthZhiIndexExact &&
		l2.dayGanIndex == l.dayGanIndex && l2.dayZhiIndex == l.dayZhiIndex &&
		l2.dayGanIndexExact == l.dayGanIndexExact && l2.dayZhiIndexExact == l.dayZhiIndexExact &&
		l2.dayGanIndexExact2 == l.dayGanIndexExact2 && l2.dayZhiIndexExact2 == l.dayZhiIndexExact2 &&
		l2.timeGanIndex == l.timeGanIndex && l2.timeZhiIndex == l.timeZhiIndex && l2.weekIndex == l.weekIndex)
	// the solar-term table the object carries (observable through GetJieQiTable, GetJieQi, GetPrevJie ...)
	vAssert("same-jieqi-table", vhSameJieQi(l, l2))
	vReach("C01a")
}

func vhSameJieQi(a, b *Lunar) bool {
	if len(a.jieQi) != len(b.jieQi) || len(a.jieQi) == 0 {
		return false
	}
	for _, k := range JIE_QI_IN_USE {
		x, y := a.jieQi[k], b.jieQi[k]
		if x == nil || y == nil {
			return false
		}
		if x.year != y.year || x.month != y.month || x.day != y.day || x.hour != y.hour || x.minute != y.minute || x.second != y.second {
			return false
		}
	}
	return true
}

// vhMonthFirstJDN: JDN of day 1 of a table month (firstJulianDay is a noon-based x.0 value).
func vhMonthFirstJDN(mm *LunarMonth) int { return int(mm.firstJulianDay + 0.5) }

// C01-H1b: the lunar date of a civil day is its position in the year's month table
// (JDN identity => order-preserving bijection given the table's contiguity, C06).
func VH_C01_Position() {
	Y, m, d, h, mi, s := vhMoment()
	l := NewSolar(Y, m, d, h, mi, s).GetLunar()
	T := specJDN(Y, m, d)
	found := 0
	for i := NewLunarYear(Y).months.Front(); i != nil; i = i.Next() {
		mm := i.Value.(*LunarMonth)
		f := vhMonthFirstJDN(mm)
		if T >= f && T < f+mm.dayCount {
			found++
			vAssert("position:year", l.year == mm.year)
			vAssert("position:month", l.month == mm.month)
			vAssert("position:day", l.day == T-f+1)
		}
	}
	vAssert("position:unique", found == 1)
	vAssert("time-copied", l.hour == h && l.minute == mi && l.second == s)
	vReach("C01b")
}

// C01-H2: stepping n days on the lunar side equals stepping n days on the civil side.
func VH_C01_Step() {
	Y, m, d, h, mi, s := vhMoment()
	N := vParam("N")
	n := vInt("n", -N, N)
	sol := NewSolar(Y, m, d, h, mi, s)
	l := sol.GetLunar()
	t := sol.NextDay(n)
	vAssume(t.year >= 1 && t.year <= 9998)
	var l2 *Lunar
	vAssert("step-no-panic", !vPanics(func() { l2 = l.Next(n) }))
	s2 := l2.GetSolar()
	vAssert("step-solar", s2.year == t.year && s2.month == t.month && s2.day == t.day && s2.hour == h && s2.minute == mi && s2.second == s)
	vAssert("step-jdn", specJDN(s2.year, s2.month, s2.day) == specJDN(Y, m, d)+n)
	// the stepped lunar date is the lunar date of the stepped civil day, and steps back
	l3 := t.GetLunar()
	vAssert("step-same-lunar", l2.year == l3.year && l2.month == l3.month && l2.day == l3.day)
	b := l2.Next(-n)
	vAssert("step-back", b.year == l.year && b.month == l.month && b.day == l.day)
	vReach("C01c")
}
