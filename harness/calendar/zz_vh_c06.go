package calendar

func vhInReform(jdn int) bool {
	// the two month-renaming reforms the library models: AD 8-23 and AD 236-240 (first-day JDN windows used by the library, widened by a lunation)
	return jdn >= 1724360-60 && jdn <= 1729794+60 || jdn >= 1807724-60 && jdn <= 1808699+60
}

// C06a: structure of the month table of a concrete year (concrete evaluation, recorded as such).
func VH_C06_Structure() {
	Y := vParam("Y")
	ly := NewLunarYear(Y)
	n := 0
	var prev *LunarMonth
	inYear := 0
	leaps := 0
	days := 0
	// the property's structural clauses are stated outside the two modelled reforms (AD 8-23, AD 236-240);
	// tables of years touching them (the table of year Y spans Y-1 .. Y+1) are exempt from those clauses only
	reform := Y >= 7 && Y <= 25 || Y >= 235 && Y <= 242
	lastNo := 0
	for i := ly.months.Front(); i != nil; i = i.Next() {
		mm := i.Value.(*LunarMonth)
		n++
		f := vhMonthFirstJDN(mm)
		if prev != nil {
			vAssert("contiguous", f == vhMonthFirstJDN(prev)+prev.dayCount)
		}
		if mm.year == Y {
			inYear++
			days += mm.dayCount
			if mm.month < 0 {
				leaps++
				if !(reform || vhInReform(f)) {
					vAssert("leap-follows-its-month", prev != nil && prev.year == Y && prev.month == -mm.month)
				}
			} else if !(reform || vhInReform(f)) {
				vAssert("numbered-in-order", mm.month == lastNo+1)
				lastNo = mm.month
			}
		}
		if !(reform || vhInReform(f)) {
			vAssert("29-or-30", mm.dayCount == 29 || mm.dayCount == 30)
			vAssert("month-number", (mm.month >= 1 && mm.month <= 12) || (mm.month <= -1 && mm.month >= -12))
		}
		prev = mm
	}
	vAssert("15-months", n == 15)
	if !reform {
		vAssert("12-or-13", inYear == 12+leaps && leaps <= 1 && lastNo == 12)
		vAssert("year-length", days >= 353 && days <= 355 || days >= 383 && days <= 385)
	}
	vAssert("day-count", ly.GetDayCount() == days)
	lm := 0
	for i := ly.months.Front(); i != nil; i = i.Next() {
		mm := i.Value.(*LunarMonth)
		if mm.year == Y && mm.month < 0 && lm == 0 {
			lm = -mm.month
		}
	}
	vAssert("leap-month", ly.GetLeapMonth() == lm)
	vAssert("months-in-year", ly.GetMonthsInYear().Len() == inYear)
	// neighbouring tables agree on the months they share
	if Y < 9998 {
		nx := NewLunarYear(Y + 1)
		for i := ly.months.Front(); i != nil; i = i.Next() {
			a := i.Value.(*LunarMonth)
			for j := nx.months.Front(); j != nil; j = j.Next() {
				b := j.Value.(*LunarMonth)
				if vhMonthFirstJDN(a) == vhMonthFirstJDN(b) {
					vAssert("neighbour-agree", a.year == b.year && a.month == b.month && a.dayCount == b.dayCount)
				}
			}
		}
	}
	vReach("C06a")
}

// C06b: month navigation from an arbitrary month of year Y's own months, arbitrary n.
func VH_C06_Navigate() {
	Y := vParam("Y")
	N := vParam("N")
	ly := NewLunarYear(Y)
	var ms []*LunarMonth
	for i := ly.months.Front(); i != nil; i = i.Next() {
		mm := i.Value.(*LunarMonth)
		if mm.year == Y {
			ms = append(ms, mm)
		}
	}
	k := vParam("K")
	if k >= len(ms) {
		vReach("C06b")
		return
	}
	start := ms[k]
	n := vInt("n", -N, N)
	var t *LunarMonth
	vAssert("next-no-panic", !vPanics(func() { t = start.Next(n) }))
	vAssert("next-non-nil", t != nil)
	vAssume(t != nil)
	f0, f1 := vhMonthFirstJDN(start), vhMonthFirstJDN(t)
	vAssert("direction", (n > 0) == (f1 > f0) && (n == 0) == (f1 == f0))
	// distance in months: at least 29|n| and at most 30|n| days (+ reform slack handled by the year set)
	vAssert("distance", (f1-f0 >= 29*n-2 && f1-f0 <= 30*n+2) || (n < 0 && f0-f1 >= -29*n-2 && f0-f1 <= -30*n+2))
	b := t.Next(-n)
	vAssert("inverse", b != nil && b.year == start.year && b.month == start.month && vhMonthFirstJDN(b) == f0)
	u := t.Next(1)
	w := start.Next(n + 1)
	vAssert("compose", u != nil && w != nil && u.year == w.year && u.month == w.month && vhMonthFirstJDN(u) == vhMonthFirstJDN(w))
	vAssert("contiguous-step", vhMonthFirstJDN(u) == f1+t.dayCount)
	vReach("C06b")
}
