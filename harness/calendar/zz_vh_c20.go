package calendar

import (
	"container/list"

	"github.com/6tail/lunar-go/SolarUtil"
)

// spec: first day (month*100+day) of each sign, index into SolarUtil.XINGZUO
var specXingZuoStart = [12]int{321, 420, 521, 622, 723, 823, 923, 1024, 1123, 1222, 120, 219}

func specXingZuo(m, d int) int {
	md := m*100 + d
	// signs 0..8 start within the year after 3-21; Capricorn (9) wraps the new year
	idx := 9
	if md >= 120 {
		idx = 10
	}
	if md >= 219 {
		idx = 11
	}
	for i := 0; i <= 8; i++ {
		if md >= specXingZuoStart[i] {
			idx = i
		}
	}
	if md >= 1222 {
		idx = 9
	}
	return idx
}

func vhListHas(l *list.List, s string) bool {
	for i := l.Front(); i != nil; i = i.Next() {
		if i.Value.(string) == s {
			return true
		}
	}
	return false
}

func vhListCount(l *list.List, s string) int {
	n := 0
	for i := l.Front(); i != nil; i = i.Next() {
		if i.Value.(string) == s {
			n++
		}
	}
	return n
}

// C20 zodiac: one sign per date, conventional start days, contiguous and cyclic, depends on (m,d) only.
func VH_C20_XingZuo() {
	y, m, d := vhDate("")
	h := vInt("h", 0, 23)
	s := NewSolar(y, m, d, h, 0, 0)
	want := specXingZuo(m, d)
	vAssert("sign", s.GetXingZuo() == SolarUtil.XINGZUO[want])
	vAssert("alias", s.GetXingzuo() == s.GetXingZuo())
	vAssume(!(y == 9998 && m == 12 && d == 31))
	t := s.NextDay(1)
	nx := specXingZuo(t.month, t.day)
	vAssert("contiguous", nx == want || nx == (want+1)%12)
	vAssert("next-sign-name", t.GetXingZuo() == SolarUtil.XINGZUO[nx])
	vReach("C20a")
}

// C20 festivals: k-th weekday / last weekday / fixed-date festivals.
func VH_C20_Festivals() {
	y, m, d := vhDate("")
	s := NewSolar(y, m, d, 0, 0, 0)
	fs := s.GetFestivals()
	w := (specJDN(y, m, d) + 1) % 7
	vAssert("jdn-lemma", int(s.GetJulianDay()+0.5) == specJDN(y, m, d))
	vAssert("week-lemma", s.GetWeek() == w)
	dim := specLastDay(y, m)
	// the table is walked concretely; each key "M-k-w"
	for key, name := range SolarUtil.WEEK_FESTIVAL {
		M, k, wd := vhParse3(key)
		var want bool
		if k == 0 {
			want = m == M && w == wd && d+7 > dim
		} else {
			want = m == M && w == wd && d > 7*(k-1) && d <= 7*k
		}
		vAssert("week-festival:"+key, vhListHas(fs, name) == want)
		vAssert("week-festival-once:"+key, vhListCount(fs, name) <= 1)
	}
	for key, name := range SolarUtil.FESTIVAL {
		M, D := vhParse2(key)
		vAssert("fixed-festival:"+key, vhListHas(fs, name) == (m == M && d == D))
	}
	of := s.GetOtherFestivals()
	for key, names := range SolarUtil.OTHER_FESTIVAL {
		M, D := vhParse2(key)
		for _, name := range names {
			vAssert("other-festival:"+key, vhListHas(of, name) == (m == M && d == D))
		}
	}
	vReach("C20b")
}

func vhAtoi(s string) int {
	n := 0
	for i := 0; i < len(s); i++ {
		n = n*10 + int(s[i]-'0')
	}
	return n
}

func vhSplit(s string) []string {
	var out []string
	cur := ""
	for i := 0; i < len(s); i++ {
		if s[i] == '-' {
			out = append(out, cur)
			cur = ""
		} else {
			cur += string(s[i])
		}
	}
	return append(out, cur)
}

func vhParse3(k string) (int, int, int) {
	p := vhSplit(k)
	return vhAtoi(p[0]), vhAtoi(p[1]), vhAtoi(p[2])
}

func vhParse2(k string) (int, int) {
	p := vhSplit(k)
	return vhAtoi(p[0]), vhAtoi(p[1])
}
