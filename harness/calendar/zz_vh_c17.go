package calendar

import (
	"github.com/6tail/lunar-go/LunarUtil"
	"github.com/6tail/lunar-go/TaoUtil"
	"github.com/6tail/lunar-go/FotoUtil"
)

func vhInMD(list []string, m, d int) bool {
	r := false
	for _, k := range list {
		M, D := vhParse2(k)
		if m == M && d == D {
			r = true
		}
	}
	return r
}

// C17: Taoist / Buddhist dates of every moment of a concrete year.
func VH_C17_TaoFoto() {
	Y, m, d, h, mi, s := vhMoment()
	sol := NewSolar(Y, m, d, h, mi, s)
	l := sol.GetLunar()
	t, f := l.GetTao(), l.GetFoto()
	vAssert("tao-year", t.GetYear() == l.year+2697)
	vAssert("foto-year", f.GetYear() == l.year+544)
	vAssert("tao-md", t.GetMonth() == l.month && t.GetDay() == l.day)
	vAssert("foto-md", f.GetMonth() == l.month && f.GetDay() == l.day)
	vEach(func() {
		t2 := NewTao(t.GetYear(), t.GetMonth(), t.GetDay(), h, mi, s)
		s2 := t2.GetLunar().GetSolar()
		vAssert("tao-round-trip", s2.year == Y && s2.month == m && s2.day == d && s2.hour == h && s2.minute == mi && s2.second == s)
		vAssert("tao-numbers-back", t2.GetYear() == t.GetYear() && t2.GetMonth() == t.GetMonth() && t2.GetDay() == t.GetDay())
	})
	vEach(func() {
		f2 := NewFoto(l.year+544, l.month, l.day, h, mi, s)
		s2 := f2.GetLunar().GetSolar()
		vAssert("foto-round-trip", s2.year == Y && s2.month == m && s2.day == d && s2.hour == h && s2.minute == mi && s2.second == s)
		vAssert("foto-numbers-back", f2.GetYear() == l.year+544 && f2.GetMonth() == l.month && f2.GetDay() == l.day)
	})
	// day-class predicates: functions of (lunar month, day, day pillar, today's term)
	mo, dy := l.month, l.day
	am := mo
	if am < 0 {
		am = -am
	}
	vEach(func() {
		vAssert("san-hui", t.IsDaySanHui() == vhInMD(TaoUtil.SAN_HUI, mo, dy))
		vAssert("san-yuan", t.IsDaySanYuan() == vhInMD(TaoUtil.SAN_YUAN, mo, dy))
		vAssert("wu-la", t.IsDayWuLa() == vhInMD(TaoUtil.WU_LA, mo, dy))
	})
	vEach(func() {
		vAssert("ming-wu", t.IsDayMingWu() == (l.dayGanIndex == 4))
		want := LunarUtil.Find(TaoUtil.AN_WU[vConcretize(am)-1], LunarUtil.ZHI, -1)
		vAssert("an-wu", t.IsDayAnWu() == (l.dayZhiIndex == want))
		vAssert("wu", t.IsDayWu() == (t.IsDayMingWu() || t.IsDayAnWu()))
	})
	vEach(func() {
		// eight-festival day: today's solar term is one of the eight; eight-assembly: the day pillar is listed
		ti := -1
		for i := range JIE_QI_IN_USE {
			if ti < 0 && specTermCmp(l, i, true, Y, m, d, 0, 0, 0) == 0 {
				ti = i
			}
		}
		bj := false
		if ti >= 0 {
			_, bj = TaoUtil.BA_JIE[convertJieQi(JIE_QI_IN_USE[vConcretize(ti)])]
		}
		vAssert("ba-jie", t.IsDayBaJie() == bj)
		idx := vConcretize((specJDN(Y, m, d) + 49) % 60)
		_, bh := TaoUtil.BA_HUI[LunarUtil.JIA_ZI[idx]]
		vAssert("ba-hui", t.IsDayBaHui() == bh)
	})
	vEach(func() {
		vAssert("month-zhai", f.IsMonthZhai() == (mo == 1 || mo == 5 || mo == 9))
		vAssert("zhai-shuo-wang", f.IsDayZhaiShuoWang() == (dy == 1 || dy == 15))
		vAssert("zhai-ten", f.IsDayZhaiTen() == (dy == 1 || dy == 8 || dy == 14 || dy == 15 || dy == 18 || dy == 23 || dy == 24 || dy == 28 || dy == 29 || dy == 30))
		vAssert("zhai-guanyin", f.IsDayZhaiGuanYin() == vhInMD(FotoUtil.DAY_ZHAI_GUAN_YIN, mo, dy))
	})
	vEach(func() {
		// six fasting days: 8,14,15,23,29,30 and the 28th of a month that has no 30th
		cnt := 0
		for _, yy := range []int{Y - 1, Y} {
			for i := NewLunarYear(yy).months.Front(); i != nil; i = i.Next() {
				mm := i.Value.(*LunarMonth)
				if yy == l.year && mm.year == l.year && mm.month == mo && cnt == 0 { // the lunar year's own table, as NewLunarMonthFromYm uses
					cnt = mm.dayCount
				}
			}
		}
		want := dy == 8 || dy == 14 || dy == 15 || dy == 23 || dy == 29 || dy == 30 || (dy == 28 && cnt != 30)
		vAssert("zhai-six", f.IsDayZhaiSix() == want)
	})
	vEach(func() {
		var yg bool
		vAssert("yanggong-no-panic", !vPanics(func() { yg = f.IsDayYangGong() }))
		_ = yg
		vAssert("foto-festivals-no-panic", !vPanics(func() { f.GetFestivals(); f.GetOtherFestivals(); t.GetFestivals() }))
	})
	vReach("C17a")
}
