package calendar

// C18e (field-level): the hour object's attributes are functions of (early-rat day pillar, hour pillar): two states that
// share these share every scalar attribute of their hour objects (the twelve heavenly spirits are keyed on the day branch
// the hour belongs to; positions, clash, nayin, xun on the hour pillar).
func VH_C18_TimePure() {
	vhFieldLevel = true
	base := NewSolar(vParam("Y"), 6, 15, 12, 0, 0).GetLunar()
	a, b := vhLunarSym("a", base), vhLunarSym("b", base)
	vAssume(a.dayGanIndexExact == b.dayGanIndexExact && a.dayZhiIndexExact == b.dayZhiIndexExact)
	vAssume(a.timeGanIndex == b.timeGanIndex && a.timeZhiIndex == b.timeZhiIndex)
	ta := &LunarTime{lunar: a, zhiIndex: a.timeZhiIndex, ganIndex: a.timeGanIndex}
	tb := &LunarTime{lunar: b, zhiIndex: b.timeZhiIndex, ganIndex: b.timeGanIndex}
	eq := func(id string, f func(t *LunarTime) string) {
		vEach(func() { vAssert("time-pure:"+id, f(ta) == f(tb)) })
	}
	eq("GetGan", (*LunarTime).GetGan)
	eq("GetZhi", (*LunarTime).GetZhi)
	eq("GetGanZhi", (*LunarTime).GetGanZhi)
	eq("GetShengXiao", (*LunarTime).GetShengXiao)
	eq("GetNaYin", (*LunarTime).GetNaYin)
	eq("GetTianShen", (*LunarTime).GetTianShen)
	eq("GetTianShenType", (*LunarTime).GetTianShenType)
	eq("GetTianShenLuck", (*LunarTime).GetTianShenLuck)
	eq("GetPositionXi", (*LunarTime).GetPositionXi)
	eq("GetPositionXiDesc", (*LunarTime).GetPositionXiDesc)
	eq("GetPositionYangGui", (*LunarTime).GetPositionYangGui)
	eq("GetPositionYangGuiDesc", (*LunarTime).GetPositionYangGuiDesc)
	eq("GetPositionYinGui", (*LunarTime).GetPositionYinGui)
	eq("GetPositionYinGuiDesc", (*LunarTime).GetPositionYinGuiDesc)
	eq("GetPositionFu", (*LunarTime).GetPositionFu)
	eq("GetPositionFuDesc", (*LunarTime).GetPositionFuDesc)
	eq("GetPositionCai", (*LunarTime).GetPositionCai)
	eq("GetPositionCaiDesc", (*LunarTime).GetPositionCaiDesc)
	eq("GetChong", (*LunarTime).GetChong)
	eq("GetSha", (*LunarTime).GetSha)
	eq("GetChongGan", (*LunarTime).GetChongGan)
	eq("GetChongGanTie", (*LunarTime).GetChongGanTie)
	eq("GetChongShengXiao", (*LunarTime).GetChongShengXiao)
	eq("GetChongDesc", (*LunarTime).GetChongDesc)
	eq("GetXun", (*LunarTime).GetXun)
	eq("GetXunKong", (*LunarTime).GetXunKong)
	vhFieldLevel = false
	vReach("C18e")
}
