package calendar

// nearest jiazi day to day X (ties and the 30/30 split as the classical rule used by the library: index>29 forward)
func specJiaZiNear(x int) int {
	idx := (x + 49) % 60
	if idx > 29 {
		return x + 60 - idx
	}
	return x - idx
}

// C16: nine stars of year / month / day / hour for every moment of a concrete year.
func VH_C16_Stars() {
	Y, m, d, h, mi, s := vhMoment()
	l := NewSolar(Y, m, d, h, mi, s).GetLunar()
	T := specJDN(Y, m, d)
	// pillar years under the three conventions
	lc := l.jieQi["立春"]
	if lc.year != Y {
		lc = l.jieQi["LI_CHUN"]
	}
	yl, ye := Y-1, Y-1
	if specCmp6(Y, m, d, 0, 0, 0, lc.year, lc.month, lc.day, 0, 0, 0) >= 0 {
		yl = Y
	}
	if specCmp6(Y, m, d, h, mi, s, lc.year, lc.month, lc.day, lc.hour, lc.minute, lc.second) >= 0 {
		ye = Y
	}
	vEach(func() {
		vAssert("year-star-1", l.GetYearNineStarBySect(1).GetIndex() == specMod(2-(l.year-2024), 9))
		vAssert("year-star-2", l.GetYearNineStarBySect(2).GetIndex() == specMod(2-(yl-2024), 9))
		vAssert("year-star-3", l.GetYearNineStarBySect(3).GetIndex() == specMod(2-(ye-2024), 9))
		vAssert("year-star-default", l.GetYearNineStar().GetIndex() == l.GetYearNineStarBySect(2).GetIndex())
	})
	vEach(func() {
		// month star: steps back one per Jie month from the year-branch group's start at the yin month
		for _, sect := range []int{1, 2, 3} {
			yz, mz := l.yearZhiIndexByLiChun, l.monthZhiIndex
			if sect == 1 {
				yz = l.yearZhiIndex
			}
			if sect == 3 {
				yz, mz = l.yearZhiIndexExact, l.monthZhiIndexExact
			}
			start := 7 - 3*(yz%3)
			want := specMod(start-specMod(mz-2, 12), 9)
			got := l.GetMonthNineStarBySect(sect).GetIndex()
			vAssert("month-star", got == want && got >= 0 && got <= 8)
		}
		vAssert("month-star-default", l.GetMonthNineStar().GetIndex() == l.GetMonthNineStarBySect(2).GetIndex())
	})
	w1, sm, w2 := vhTermJDN(l, "冬至"), vhTermJDN(l, "夏至"), vhTermJDN(l, "DONG_ZHI")
	vEach(func() {
		a1, dd, a2 := specJiaZiNear(w1), specJiaZiNear(sm), specJiaZiNear(w2)
		got := l.GetDayNineStar().GetIndex()
		vAssert("day-star-range", got >= 0 && got <= 8)
		switch {
		case T >= a2:
			vAssert("day-star-asc2", got == (T-a2)%9)
		case T >= dd:
			vAssert("day-star-desc", got == 8-(T-dd)%9)
		case T >= a1:
			vAssert("day-star-asc", got == (T-a1)%9)
		default:
			// still descending from the jiazi day nearest last year's summer solstice
			p := NewSolar(Y-1, 6, 15, 12, 0, 0).GetLunar()
			d0 := specJiaZiNear(vhTermJDN(p, "夏至"))
			vAssert("day-star-desc-prev", got == 8-(T-d0)%9)
		}
	})
	vEach(func() {
		asc := (T >= w1 && T < sm) || T >= w2
		dz := (T + 49) % 60 % 12
		start := 6
		if !asc {
			start = 2
		}
		if dz%3 == 0 {
			start = 0
			if !asc {
				start = 8
			}
		} else if dz%3 == 1 {
			start = 3
			if !asc {
				start = 5
			}
		}
		tz := ((h + 1) / 2) % 12
		want := (start + tz) % 9
		if !asc {
			want = (start + 9 - tz) % 9
		}
		vAssert("hour-star", l.GetTimeNineStar().GetIndex() == want)
		vAssert("hour-star-hour-object", l.GetTime().GetNineStar().GetIndex() == want)
	})
	vReach("C16a")
}

// C16b: every naming system indexes the same star (all getters total on 0..8).
func VH_C16_Names() {
	i := vInt("i", 0, 8)
	ns := NewNineStar(vConcretize(i))
	vAssert("index", ns.GetIndex() == i)
	vAssert("names", ns.GetNumber() != "" && ns.GetColor() != "" && ns.GetWuXing() != "" && ns.GetPosition() != "" && ns.GetPositionDesc() != "" &&
		ns.GetNameInXuanKong() != "" && ns.GetNameInBeiDou() != "" && ns.GetNameInQiMen() != "" && ns.GetNameInTaiYi() != "" &&
		ns.GetLuckInQiMen() != "" && ns.GetLuckInXuanKong() != "" && ns.GetYinYangInQiMen() != "" && ns.GetTypeInTaiYi() != "" &&
		ns.GetSongInTaiYi() != "" && ns.String() != "" && ns.ToFullString() != "")
	vAssert("number-matches-index", ns.GetNumber() == NUMBER[vConcretize(i)])
	vReach("C16b")
}
