package calendar

import "container/list"

func vhMix(h, v int) int { return (h*131 + v%1000003 + 1000003) % 1000000007 }

func vhHashStr(s string) int {
	h := 17
	for i := 0; i < len(s); i++ {
		h = (h*31 + int(s[i])) % 1000000007
	}
	return h
}

func vhHashList(l *list.List) int {
	h := 5
	if l == nil {
		return 3
	}
	for i := l.Front(); i != nil; i = i.Next() {
		switch v := i.Value.(type) {
		case string:
			h = vhMix(h, vhHashStr(v))
		case *Solar:
			h = vhMix(h, vhHashStr(v.ToYmdHms()))
		case *LunarMonth:
			h = vhMix(h, vhHashStr(v.String()))
		case *SolarMonth:
			h = vhMix(h, vhHashStr(v.String()))
		case *SolarWeek:
			h = vhMix(h, vhHashStr(v.String()))
		case *TaoFestival:
			h = vhMix(h, vhHashStr(v.String()))
		case *FotoFestival:
			h = vhMix(h, vhHashStr(v.String()))
		default:
			h = vhMix(h, 9)
		}
	}
	return h
}

// vhDigestDate: one number summarising ~450 accessor results of the objects reachable from a civil date-time
func vhDigestDate(y, m, d, hh, mi, s, sect, gender int) int {
	sol := NewSolar(y, m, d, hh, mi, s)
	h := vhDigest_Solar(sol)
	l := sol.GetLunar()
	h = vhMix(h, vhDigest_Lunar(l))
	ec := l.GetEightChar()
	ec.SetSect(sect)
	h = vhMix(h, vhDigest_EightChar(ec))
	h = vhMix(h, vhDigest_LunarTime(l.GetTime()))
	h = vhMix(h, vhDigest_Tao(l.GetTao()))
	h = vhMix(h, vhDigest_Foto(l.GetFoto()))
	h = vhMix(h, vhDigest_NineStar(l.GetDayNineStar()))
	h = vhMix(h, vhDigest_LunarYear(NewLunarYear(l.year)))
	h = vhMix(h, vhDigest_LunarMonth(NewLunarMonthFromYm(l.year, l.month)))
	yun := ec.GetYunBySect(gender, sect)
	h = vhMix(h, vhDigest_Yun(yun))
	dy := yun.GetDaYun()[2]
	h = vhMix(h, vhDigest_DaYun(dy))
	h = vhMix(h, vhDigest_LiuNian(dy.GetLiuNian()[3]))
	h = vhMix(h, vhDigest_XiaoYun(dy.GetXiaoYun()[3]))
	h = vhMix(h, vhDigest_LiuYue(dy.GetLiuNian()[3].GetLiuYue()[4]))
	h = vhMix(h, vhDigest_SolarWeek(NewSolarWeekFromYmd(y, m, d, (y+d)%7)))
	h = vhMix(h, vhDigest_SolarMonth(NewSolarMonthFromYm(y, m)))
	h = vhMix(h, vhHashStr(sol.NextDay(d*7-100).ToYmdHms()))
	h = vhMix(h, vhHashStr(sol.NextHour(mi*13-300).ToYmdHms()))
	h = vhMix(h, vhHashStr(l.Next(s-30).String()))
	h = vhMix(h, vhHashList(ListSolarFromBaZiBySectAndBaseYear(ec.GetYear(), ec.GetMonth(), ec.GetDay(), ec.GetTime(), sect, 1900)))
	return h
}

// VH_ST_Concrete: the executor's concrete evaluation of the real code equals the native run (expected digest from a native test)
func VH_ST_Concrete() {
	got := vhDigestDate(vParam("Y"), vParam("M"), vParam("D"), vParam("H"), vParam("MI"), vParam("S"), vParam("SECT"), vParam("GENDER"))
	vAssert("digest-equals-native", got == vParam("EXPECT"))
	vReach("ST1")
}

func vhDigestSmall(l *Lunar) int {
	h := 7
	for _, v := range []int{l.year, l.month, l.day, l.yearGanIndex, l.yearZhiIndex, l.yearGanIndexByLiChun, l.yearZhiIndexByLiChun, l.yearGanIndexExact, l.yearZhiIndexExact,
		l.monthGanIndex, l.monthZhiIndex, l.monthGanIndexExact, l.monthZhiIndexExact, l.dayGanIndex, l.dayZhiIndex, l.dayGanIndexExact, l.dayZhiIndexExact,
		l.timeGanIndex, l.timeZhiIndex, l.weekIndex} {
		h = vhMix(h, v+100)
	}
	return h
}

func vhStrDigest(l *Lunar) int {
	return vhHashStr(l.GetYearInGanZhiExact())%1000 + vhHashStr(l.GetMonthInGanZhiExact())%1000*3 + vhHashStr(l.GetDayInGanZhiExact())%1000*5 +
		vhHashStr(l.GetTimeInGanZhi())%1000*7 + vhHashStr(l.GetJieQi())%1000*11 + vhHashStr(l.GetDayNaYin())%1000*13
}

// VH_ST_Symbolic: the symbolic encoding, constrained to one point, must give the native values (Serval-style
// validation of the translator: the assertion is an SMT query over the merged symbolic state)
func VH_ST_Symbolic() {
	Y, m, d, h, mi, s := vhMoment()
	l := NewSolar(Y, m, d, h, mi, s).GetLunar()
	vAssume(d == vParam("D") && h == vParam("H") && mi == vParam("MI") && s == vParam("S"))
	vAssert("fields-equal-native", vhDigestSmall(l) == vParam("EXPECT"))
	vAssert("string-accessors", vhStrDigest(l) == vParam("EXPECT2"))
	vReach("ST2")
}
