package calendar

import "github.com/6tail/lunar-go/LunarUtil"

func specSlot(h int) int {
	if h == 23 {
		return 11
	}
	return ((h + 1) / 2) % 12
}

// 60-cycle index from stem and branch indices of equal parity
func specGZ(g, z int) int {
	// x ≡ g (mod 10), x ≡ z (mod 12)  =>  x = (6g - 5z) mod 60
	return specMod(6*g-5*z, 60)
}

// C12a: fortune direction and start offset (both schools) for every birth moment of a concrete year.
func VH_C12_Start() {
	Y, m, d, h, mi, s := vhMoment()
	gender := vInt("gender", 0, 1)
	sect := vParam("SECT")
	l := NewSolar(Y, m, d, h, mi, s).GetLunar()
	yun := l.GetEightChar().GetYunBySect(gender, sect)
	fwd := (l.yearGanIndexExact%2 == 0) == (gender == 1)
	vAssert("direction", yun.IsForward() == fwd)
	// the Jie before / after the birth instant (instant level)
	pj := specNear(l, false, 1, false, Y, m, d, h, mi, s)
	nj := specNear(l, true, 1, false, Y, m, d, h, mi, s)
	vAssert("jie-exist", pj >= 0 && nj >= 0)
	var e *Solar
	if fwd {
		e = l.jieQi[JIE_QI_IN_USE[vConcretize(nj)]]
	} else {
		e = l.jieQi[JIE_QI_IN_USE[vConcretize(pj)]]
	}
	T := specJDN(Y, m, d)
	E := specJDN(e.year, e.month, e.day)
	if sect == 2 {
		M := (E-T)*1440 + (e.hour*60 + e.minute) - (h*60 + mi)
		if !fwd {
			M = -M
		}
		vAssert("s2-nonneg", M >= 0)
		vAssert("s2-year", yun.GetStartYear() == M/4320)
		vAssert("s2-month", yun.GetStartMonth() == (M%4320)/360)
		vAssert("s2-day", yun.GetStartDay() == (M%360)/12)
		vAssert("s2-hour", yun.GetStartHour() == 2*(M%12))
	} else {
		D := E - T
		S := specSlot(e.hour) - specSlot(h)
		if !fwd {
			D, S = -D, -S
		}
		if S < 0 {
			S += 12
			D--
		}
		Tt := 120*D + 10*S
		vAssert("s1-year", yun.GetStartYear() == Tt/360)
		vAssert("s1-month", yun.GetStartMonth() == (Tt%360)/30)
		vAssert("s1-day", yun.GetStartDay() == Tt%30)
		vAssert("s1-hour", yun.GetStartHour() == 0)
	}
	vAssert("ranges", yun.GetStartMonth() >= 0 && yun.GetStartMonth() <= 11 && yun.GetStartDay() >= 0 && yun.GetStartDay() <= 29 && yun.GetStartHour() >= 0 && yun.GetStartHour() <= 23 && yun.GetStartYear() >= 0)
	vAssert("gender", yun.GetGender() == gender)
	vReach("C12a")
}

// C12b: the chain of great / annual / monthly / minor fortunes (field-level in the start offset, the
// direction and the month / hour pillars; birth year concrete because the annual pillar reads its term table).
func VH_C12_Chain() {
	Y := vParam("Y")
	bm := vParam("BM")
	l := NewSolar(Y, bm, 15, 12, 0, 0).GetLunar()
	// arbitrary month and hour pillars (valid stem/branch pairs)
	mg, mz := vInt("mg", 0, 9), vInt("mz", 0, 11)
	tg, tz := vInt("tg", 0, 9), vInt("tz", 0, 11)
	vAssume(mg%2 == mz%2 && tg%2 == tz%2)
	l.monthGanIndexExact, l.monthZhiIndexExact = mg, mz
	l.timeGanIndex, l.timeZhiIndex = tg, tz
	gender := vInt("gender", 0, 1)
	fwd := vParam("FWD") == 1
	yun := &Yun{gender: gender, startYear: vInt("sy", 0, 12), startMonth: vInt("sm", 0, 11), startDay: 0, startHour: 0, forward: fwd, lunar: l}
	st := yun.GetStartSolar()
	sy := st.year
	vAssert("start-year", sy == Y+yun.startYear || sy == Y+yun.startYear+1)
	I := vParam("I")
	dys := yun.GetDaYun()
	vAssert("ten-periods", len(dys) == 10)
	dy := dys[I]
	vAssert("dy-index", dy.GetIndex() == I && dy.GetLunar() == l)
	if I == 0 {
		vAssert("dy0-span", dy.GetStartYear() == Y && dy.GetEndYear() == sy-1 && dy.GetStartAge() == 1 && dy.GetEndAge() == sy-Y)
		vAssert("dy0-pillar", dy.GetGanZhi() == "")
		n := dy.GetEndYear() - dy.GetStartYear() + 1
		vAssume(n >= 0 && n <= 13)
		vAssert("dy0-liunian-count", len(dy.GetLiuNian()) == vConcretize(n) && len(dy.GetXiaoYun()) == vConcretize(n))
	} else {
		vAssert("dy-span", dy.GetStartYear() == sy+10*(I-1) && dy.GetEndYear() == dy.GetStartYear()+9)
		vAssert("dy-age", dy.GetStartAge() == dy.GetStartYear()-Y+1 && dy.GetEndAge() == dy.GetStartAge()+9)
		prev := dys[I-1]
		vAssert("dy-contiguous", dy.GetStartYear() == prev.GetEndYear()+1 && dy.GetStartAge() == prev.GetEndAge()+1)
		mp := specGZ(mg, mz)
		want := mp + I
		if !fwd {
			want = mp - I
		}
		vEach(func() {
			vAssert("dy-pillar", LunarUtil.GetJiaZiIndex(dy.GetGanZhi()) == specMod(want, 60))
		})
	}
	// C08: every accessor of the fortune objects is total on these states
	vhAcc_Yun(yun)
	vhAcc_DaYun(dy)
	lns := dy.GetLiuNian()
	xys := dy.GetXiaoYun()
	if len(lns) > 0 {
		vhAcc_LiuNian(lns[0])
		vhAcc_XiaoYun(xys[0])
		vhAcc_LiuYue(lns[0].GetLiuYue()[0])
	}
	tp := specGZ(tg, tz)
	for j := range lns {
		j := j
		ln := lns[j]
		xy := xys[j]
		vAssert("ln-year-age", ln.GetYear() == dy.GetStartYear()+j && ln.GetAge() == dy.GetStartAge()+j && ln.GetIndex() == j)
		vAssert("ln-age-from-birth", ln.GetAge() == ln.GetYear()-Y+1)
		vAssert("xy-year-age", xy.GetYear() == ln.GetYear() && xy.GetAge() == ln.GetAge() && xy.GetIndex() == j)
		vEach(func() {
			vAssert("ln-pillar", LunarUtil.GetJiaZiIndex(ln.GetGanZhi()) == specMod(ln.GetYear()-4, 60))
		})
		vEach(func() {
			age := xy.GetAge()
			w := tp + age
			if !fwd {
				w = tp - age
			}
			vAssert("xy-pillar", LunarUtil.GetJiaZiIndex(xy.GetGanZhi()) == specMod(w, 60))
		})
		vEach(func() {
			lys := ln.GetLiuYue()
			vAssert("twelve-months", len(lys) == 12)
			yg := specMod(ln.GetYear()-4, 10)
			for k := range lys {
				g := specMod((yg%5+1)*2+k, 10)
				z := (k + 2) % 12
				vAssert("ly-pillar", LunarUtil.GetJiaZiIndex(lys[k].GetGanZhi()) == specGZ(g, z))
				vAssert("ly-index", lys[k].GetIndex() == k)
			}
		})
	}
	vReach("C12b")
}
