package calendar

// C09 — results do not depend on call history or on concurrent callers.

// fingerprint of a lunar-year table
func vhYearPrint(y *LunarYear) int {
	if y == nil {
		return -1
	}
	h := y.year*31 + y.ganIndex*7 + y.zhiIndex
	for i := y.months.Front(); i != nil; i = i.Next() {
		m := i.Value.(*LunarMonth)
		h = (h*131 + m.year*17 + m.month*5 + m.dayCount*3 + int(m.firstJulianDay)) % 1000000007
	}
	for _, jd := range y.jieQiJulianDays {
		h = (h*131 + int(jd*1440)) % 1000000007
	}
	return h
}

// fingerprint of a lunar date: its fields and the solar-term table it carries
func vhDatePrint(l *Lunar) int {
	h := ((l.year*13+l.month)*31+l.day)*24 + l.hour
	h = (h*131 + l.solar.year*400 + l.solar.month*31 + l.solar.day) % 1000000007
	for _, k := range JIE_QI_IN_USE {
		e := l.jieQi[k]
		h = (h*131 + ((e.year*13+e.month)*31+e.day)*86400 + e.hour*3600 + e.minute*60 + e.second) % 1000000007
	}
	return h
}

// one public call from a small menu; returns (panicked, fingerprint)
func vhOp(op, A, B int) (bool, int) {
	fp := 0
	p := vPanics(func() {
		switch op {
		case 0:
			fp = vhYearPrint(NewLunarYear(A))
		case 1:
			fp = vhYearPrint(NewLunarYear(B))
		case 2:
			NewLunar(A, 13, 1, 0, 0, 0) // invalid month: panics after the year lookup
		case 3:
			fp = NewSolar(A, 6, 15, 12, 0, 0).GetLunar().day
		case 4:
			fp = vhYearPrint(NewLunarYear(1 << 40)) // absurd year: the table computation itself fails
		case 5:
			fp = NewLunar(B, 1, 1, 0, 0, 0).GetSolar().day
		case 6:
			fp = vhYearPrint(NewLunarYear(0))
		}
	})
	return p, fp
}

// C09a: the outcome of a call made first in a fresh process equals its outcome after an arbitrary 3-call history
// (including calls that panic and are recovered); the library is never left blocked.
func VH_C09_History() {
	A, B := vParam("A"), vParam("B")
	X := vParam("X")
	p0, f0 := vhOp(X, A, B)
	vAssert("lock-free-after-first", vhLockFree())
	// objects handed out earlier must not change under later calls: a year table and a date are held across the history
	heldYear := NewLunarYear(A)
	heldDate := NewSolar(B, 6, 15, 12, 0, 0).GetLunar()
	hy0, hd0 := vhYearPrint(heldYear), vhDatePrint(heldDate)
	// H calls (unit parameter, default 3) chosen by the solver from the menu
	H := 3
	if vHasParam("H") {
		H = vParam("H")
	}
	names := []string{"op1", "op2", "op3", "op4", "op5", "op6"}
	for i := 0; i < H && i < len(names); i++ {
		vhOp(vConcretize(vInt(names[i], 0, 6)), A, B)
		vAssert("lock-free-"+names[i][2:], vhLockFree())
	}
	p1, f1 := vhOp(X, A, B)
	vAssert("same-outcome-after-history", p0 == p1 && f0 == f1)
	vAssert("held-objects-unchanged", vhYearPrint(heldYear) == hy0 && vhDatePrint(heldDate) == hd0)
	vReach("C09a")
}

func vhLockFree() bool {
	if lock.TryLock() {
		lock.Unlock()
		return true
	}
	return false
}

// environment of C09b: tables other goroutines may have published while this goroutine did not hold the lock
var vhEnvTables []*LunarYear

func vhOnLock() {
	if len(vhEnvTables) == 0 {
		return
	}
	k := vInt("env", 0, len(vhEnvTables))
	k = vConcretize(k)
	if k == len(vhEnvTables) {
		CACHE_YEAR = nil
	} else {
		CACHE_YEAR = vhEnvTables[k]
	}
}

// C09b: under arbitrary interference at every lock acquisition (the cache may hold nothing, another year's table or
// this year's table each time the lock is taken), NewLunarYear returns the table of its own argument, releases the
// lock, and leaves the cache valid.  With every access to the cache inside the critical section (C09c) this covers
// every interleaving of concurrent callers at critical-section granularity.
func VH_C09_LockDiscipline() {
	A, B := vParam("A"), vParam("B")
	// reference tables, computed without interference
	ta := NewLunarYear(A)
	tb := NewLunarYear(B)
	fa := vhYearPrint(ta)
	vhEnvTables = []*LunarYear{ta, tb}
	var got *LunarYear
	p := vPanics(func() { got = NewLunarYear(A) })
	vhEnvTables = nil
	vAssert("no-panic", !p)
	vAssert("own-table", got != nil && got.year == A && vhYearPrint(got) == fa)
	vAssert("lock-released", vhLockFree())
	vAssert("cache-valid", CACHE_YEAR == nil || vhYearPrint(CACHE_YEAR) == vhYearPrint(NewLunarYear(CACHE_YEAR.year)))
	vReach("C09b")
}

// C09c: read-only accessors on a shared object write nothing outside a lock (two concurrent readers cannot race).
func VH_C09_SharedReads() {
	Y := vParam("Y")
	sol := NewSolar(Y, 2, 10, 23, 30, 0)
	l := sol.GetLunar()
	vhRO_Solar(sol)
	vhRO_Solar(NewSolar(Y, 6, 15, 8, 30, 15)) // a mid-morning receiver as well: hour / day steps that stay inside the day
	vhRO_Lunar(l)
	vhRO_Lunar(NewSolar(Y, 6, 15, 8, 30, 15).GetLunar())
	vhRO_EightChar(l.GetEightChar())
	vhRO_LunarTime(l.GetTime())
	vhRO_Tao(l.GetTao())
	vhRO_Foto(l.GetFoto())
	vhRO_LunarYear(NewLunarYear(Y))
	vhRO_LunarMonth(NewLunarMonthFromYm(Y, 4))
	vhRO_NineStar(l.GetDayNineStar())
	yun := l.GetEightChar().GetYun(1)
	vhRO_Yun(yun)
	vhRO_DaYun(yun.GetDaYun()[1])
	vhRO_SolarWeek(NewSolarWeekFromYmd(Y, 2, 10, 1))
	vhRO_SolarMonth(NewSolarMonthFromYm(Y, 2))
	vhRO_SolarYear(NewSolarYearFromYear(Y))
	vhRO_SolarSeason(NewSolarSeasonFromYm(Y, 2))
	vhRO_SolarHalfYear(NewSolarHalfYearFromYm(Y, 2))
	ln := yun.GetDaYun()[1].GetLiuNian()[0]
	vhRO_LiuNian(ln)
	vhRO_LiuYue(ln.GetLiuYue()[0])
	vhRO_XiaoYun(yun.GetDaYun()[1].GetXiaoYun()[0])
	vReach("C09c")
}
