package calendar

// C07-H1: NewSolar accepts exactly the valid date-times (box far around the valid ranges).
func VH_C07_NewSolar() {
	B := vParam("B")
	y := vInt("y", 1, 9998)
	m, d := vInt("m", -B, B), vInt("d", -B, B)
	h, mi, s := vInt("h", -B, B), vInt("mi", -B, B), vInt("s", -B, B)
	var t *Solar
	p := vPanics(func() { t = NewSolar(y, m, d, h, mi, s) })
	valid := specValidYmd(y, m, d) && specValidHms(h, mi, s)
	vAssert("accepts-iff-valid", p == !valid)
	if !p {
		vAssert("fields", t.year == y && t.month == m && t.day == d && t.hour == h && t.minute == mi && t.second == s)
		vAssert("getters", t.GetYear() == y && t.GetMonth() == m && t.GetDay() == d && t.GetHour() == h && t.GetMinute() == mi && t.GetSecond() == s)
	}
	p2 := vPanics(func() { NewSolarFromYmd(y, m, d) })
	vAssert("ymd-accepts-iff-valid", p2 == !specValidYmd(y, m, d))
	vReach("C07a")
}

// C07-H2: NewLunar (and NewTao / NewFoto) accept exactly the (month, day) pairs of year Y's own table.
func VH_C07_NewLunar() {
	Y := vParam("Y")
	mo, dy := vParam("MO"), vInt("dy", -2, 33)
	h, mi, s := vInt("h", -1, 24), vInt("mi", -1, 60), vInt("s", -1, 60)
	// spec from the table
	valid := false
	cnt := 0
	for i := NewLunarYear(Y).months.Front(); i != nil; i = i.Next() {
		mm := i.Value.(*LunarMonth)
		if mm.year == Y && mm.month == mo && cnt == 0 {
			cnt = mm.dayCount
		}
	}
	if cnt > 0 && dy >= 1 && dy <= cnt && specValidHms(h, mi, s) {
		valid = true
	}
	var l *Lunar
	p := vPanics(func() { l = NewLunar(Y, mo, dy, h, mi, s) })
	vAssert("newlunar-accepts-iff-exists", p == !valid)
	pt := vPanics(func() { NewTao(Y+2697, mo, dy, h, mi, s) })
	vAssert("newtao-accepts-iff-exists", pt == !valid)
	pf := vPanics(func() { NewFoto(Y+544, mo, dy, h, mi, s) })
	vAssert("newfoto-accepts-iff-exists", pf == !valid)
	if !p {
		vAssert("fields", l.year == Y && l.month == mo && l.day == dy && l.hour == h && l.minute == mi && l.second == s)
		sol := l.GetSolar()
		vAssert("solar-valid", specValidYmd(sol.year, sol.month, sol.day) && sol.hour == h && sol.minute == mi && sol.second == s)
		back := sol.GetLunar()
		vAssert("image-of-a-civil-day", back.year == Y && back.month == mo && back.day == dy)
		// the Taoist / Buddhist objects report the triple they were built from, on both routes (constructor, conversion)
		vEach(func() {
			t, f := NewTao(Y+2697, mo, dy, h, mi, s), NewFoto(Y+544, mo, dy, h, mi, s)
			vAssert("tao-fields", t.GetYear() == Y+2697 && t.GetMonth() == mo && t.GetDay() == dy)
			vAssert("foto-fields", f.GetYear() == Y+544 && f.GetMonth() == mo && f.GetDay() == dy)
			bt, bf := back.GetTao(), back.GetFoto()
			vAssert("tao-of-the-civil-day", bt.GetYear() == Y+2697 && bt.GetMonth() == mo && bt.GetDay() == dy)
			vAssert("foto-of-the-civil-day", bf.GetYear() == Y+544 && bf.GetMonth() == mo && bf.GetDay() == dy)
		})
	}
	vReach("C07b")
}
