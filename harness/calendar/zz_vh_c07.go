package calendar

// C07-H1: NewSolar accepts exactly the valid date-times (box far around the valid ranges).
func VH_C07_NewSolar() {
	B := vParam("B")
	y := vInt("y", 1, 9998)
	m, d := vInt("m", -B, B), vInt("d", -B, B)
	h, mi, s := vInt("h", -B, B), vInt("mi", -B, B), vInt("s", -B, B)
	var t *Solar
	p := vPanics(func() { t = NewSolar(y, m, d, h, mi, s) })
	valid := specValidYmd(y, m, d) && specValidHms(h, mi, s)
	vAssert("accepts-iff-valid", p == !valid)
	if !p {
		vAssert("fields", t.year == y && t.month == m && t.day == d && t.hour == h && t.minute == mi && t.second == s)
		vAssert("getters", t.GetYear() == y && t.GetMonth() == m && t.GetDay() == d && t.GetHour() == h && t.GetMinute() == mi && t.GetSecond() == s)
	}
	p2 := vPanics(func() { NewSolarFromYmd(y, m, d) })
	vAssert("ymd-accepts-iff-valid", p2 == !specValidYmd(y, m, d))
	vReach("C07a")
}
