package calendar

import "github.com/6tail/lunar-go/HolidayUtil"

// work days of year Y..Y+1 from the public year view (its agreement with the raw table is VH_C14_Views' obligation)
type vhHol struct {
	y, m, d int
	work    bool
}

func vhHolidays(Y int) []vhHol {
	var hs []vhHol
	for _, yy := range []int{Y - 1, Y, Y + 1} {
		for e := HolidayUtil.GetHolidaysByYear(yy).Front(); e != nil; e = e.Next() {
			h := e.Value.(*HolidayUtil.Holiday)
			s := h.GetDay()
			hs = append(hs, vhHol{vhAtoi(s[0:4]), vhAtoi(s[5:7]), vhAtoi(s[8:10]), h.IsWork()})
		}
	}
	return hs
}

func specWorks(hs []vhHol, y, m, d int) bool {
	w := (specJDN(y, m, d) + 1) % 7
	work := w != 0 && w != 6
	found := false
	for _, h := range hs {
		if !found && h.y == y && h.m == m && h.d == d {
			work = h.work
			found = true
		}
	}
	return work
}

// C14b: stepping n working days lands on a working day with exactly |n| working days passed.
func VH_C14_WorkdayStep() {
	Y, m, d, _, _, _ := vhMoment()
	N := vParam("N")
	n := vInt("n", -N, N)
	vAssume(n != 0)
	hs := vhHolidays(Y)
	s := NewSolar(Y, m, d, 1, 2, 3)
	var t *Solar
	vAssert("step-no-panic", !vPanics(func() { t = s.Next(n, true) }))
	vAssert("step-keeps-time", t.hour == 1 && t.minute == 2 && t.second == 3)
	vAssert("lands-on-workday", specWorks(hs, t.year, t.month, t.day))
	// count the working days strictly after the start up to and including the landing day
	dist := specJDN(t.year, t.month, t.day) - specJDN(Y, m, d)
	vAssert("direction", (n > 0) == (dist > 0))
	steps := dist
	if steps < 0 {
		steps = -steps
	}
	vAssume(steps <= 25)
	cnt := 0
	for k := 1; k <= 25; k++ {
		if k <= steps {
			var x *Solar
			if n > 0 {
				x = s.NextDay(k)
			} else {
				x = s.NextDay(-k)
			}
			if specWorks(hs, x.year, x.month, x.day) {
				cnt++
			}
		}
	}
	want := n
	if want < 0 {
		want = -want
	}
	vAssert("exactly-n-workdays", cnt == want)
	vAssert("zero-step-is-identity", s.Next(0, true).day == d)
	vReach("C14b")
}

// C14c: the pay-rate multiplier.
func VH_C14_SalaryRate() {
	Y, m, d, _, _, _ := vhMoment()
	hs := vhHolidays(Y)
	s := NewSolar(Y, m, d, 0, 0, 0)
	l := s.GetLunar()
	qm := l.jieQi["清明"]
	statutory := (m == 1 && d == 1) || (m == 5 && d == 1) || (m == 10 && d >= 1 && d <= 3) ||
		(l.month == 1 && l.day >= 1 && l.day <= 3) || (l.month == 5 && l.day == 5) || (l.month == 8 && l.day == 15) ||
		(qm.year == Y && qm.month == m && qm.day == d)
	want := 1
	if statutory {
		want = 3
	} else if !specWorks(hs, Y, m, d) {
		want = 2
	}
	vAssert("salary-rate", s.GetSalaryRate() == want)
	vReach("C14c")
}
