package calendar

import (
	"github.com/6tail/lunar-go/LunarUtil"
)

func vhTermJDN(l *Lunar, key string) int {
	e := l.jieQi[key]
	return specJDN(e.year, e.month, e.day)
}

func specGan(jdn int) int { return (jdn + 49) % 60 % 10 }

// C13: nine-nines, dog days, pentads, movable festivals for every day of a concrete year.
func VH_C13_Seasonal() {
	Y, m, d, h, mi, s := vhMoment()
	l := NewSolar(Y, m, d, h, mi, s).GetLunar()
	T := specJDN(Y, m, d)
	// --- nine-nines: 81 days from the winter-solstice day
	vEach(func() {
		w := vhTermJDN(l, "冬至")
		if T >= vhTermJDN(l, "DONG_ZHI") {
			w = vhTermJDN(l, "DONG_ZHI")
		}
		k := T - w
		sj := l.GetShuJiu()
		vAssert("shujiu:present", (sj != nil) == (k >= 0 && k <= 80))
		if sj != nil {
			vAssert("shujiu:index", sj.GetIndex() == k%9+1)
			vAssert("shujiu:name", sj.GetName() == LunarUtil.NUMBER[vConcretize(k/9)+1]+"九")
		}
	})
	// --- dog days
	vEach(func() {
		xz, lq := vhTermJDN(l, "夏至"), vhTermJDN(l, "立秋")
		f1 := xz + specMod(6-specGan(xz), 10) + 20 // third geng day on or after the solstice
		mo := lq + specMod(6-specGan(lq), 10)       // first geng day on or after Liqiu
		vAssert("fu:middle-length", mo-(f1+10) == 10 || mo-(f1+10) == 20)
		fu := l.GetFu()
		vAssert("fu:present", (fu != nil) == (T >= f1 && T <= mo+9))
		if fu != nil {
			switch {
			case T < f1+10:
				vAssert("fu:first", fu.GetName() == "初伏" && fu.GetIndex() == T-f1+1)
			case T < mo:
				vAssert("fu:middle", fu.GetName() == "中伏" && fu.GetIndex() == T-(f1+10)+1)
			default:
				vAssert("fu:last", fu.GetName() == "末伏" && fu.GetIndex() == T-mo+1)
			}
		}
	})
	// --- pentads
	vEach(func() {
		p := specNear(l, false, 0, true, Y, m, d, 0, 0, 0)
		vAssert("hou:prev-exists", p >= 0)
		pi := vConcretize(p)
		name := convertJieQi(JIE_QI_IN_USE[pi])
		off := (T - vhTermJDN(l, JIE_QI_IN_USE[pi])) / 5
		if off > 2 {
			off = 2
		}
		o := vConcretize(off)
		vAssert("hou", l.GetHou() == name+" "+LunarUtil.HOU[o])
		ti := -1
		for i, v := range JIE_QI {
			if v == name {
				ti = i
			}
		}
		vAssert("wuhou", ti >= 0 && l.GetWuHou() == LunarUtil.WU_HOU[(ti*3+o)%72])
	})
	// --- movable festivals
	vEach(func() {
		of := l.GetOtherFestivals()
		vAssert("hanshi", vhListHas(of, "寒食节") == (T+1 == vhTermJDN(l, "清明")))
		lc, lq := vhTermJDN(l, "立春"), vhTermJDN(l, "立秋")
		vAssert("chunshe", vhListHas(of, "春社") == (T == lc+specMod(4-specGan(lc), 10)+40))
		vAssert("qiushe", vhListHas(of, "秋社") == (T == lq+specMod(4-specGan(lq), 10)+40))
	})
	vEach(func() {
		// New Year's Eve: tomorrow is day 1 of a month numbered 1 (tables of Y and Y+1 hold every candidate)
		eve := false
		for _, yy := range []int{Y, Y + 1} {
			for i := NewLunarYear(yy).months.Front(); i != nil; i = i.Next() {
				mm := i.Value.(*LunarMonth)
				if mm.month == 1 && int(mm.firstJulianDay+0.5) == T+1 {
					eve = true
				}
			}
		}
		fs := l.GetFestivals()
		vAssert("chuxi", vhListHas(fs, "除夕") == eve)
		vAssert("chuxi-once", vhListCount(fs, "除夕") <= 1)
	})
	vReach("C13a")
}
