package calendar

// Harness vocabulary.  The symbolic executor intercepts these functions by
// name (bodies below are never entered there).  The native bodies are used
// for replaying a solver model against the real build: inputs come from
// vhInputs, assumptions that do not hold end the run as "not applicable",
// failed assertions are collected in vhFailures.

type vhAbort struct{ why string }

var vhInputs = map[string]int{}
var vhParams = map[string]int{}
var vhFailures []string
var vhReached []string
var vhSeq = map[string]int{}

func vhName(base string) string {
	n := vhSeq[base]
	vhSeq[base] = n + 1
	if n == 0 {
		return "v_" + base
	}
	return "v_" + base + "_" + vhItoa(n)
}

func vhItoa(n int) string {
	if n == 0 {
		return "0"
	}
	s := ""
	for n > 0 {
		s = string(rune('0'+n%10)) + s
		n /= 10
	}
	return s
}

func vInt(name string, lo, hi int) int {
	n := vhName(name)
	v, ok := vhInputs[n]
	if !ok {
		if lo == hi {
			return lo
		}
		panic(vhAbort{"no value for input " + n})
	}
	if v < lo || v > hi {
		panic(vhAbort{"input out of declared range: " + n})
	}
	return v
}

func vBool(name string) bool {
	n := vhName(name)
	v, ok := vhInputs[n]
	if !ok {
		panic(vhAbort{"no value for input " + n})
	}
	return v != 0
}

func vParam(name string) int {
	v, ok := vhParams[name]
	if !ok {
		panic(vhAbort{"no parameter " + name})
	}
	return v
}

func vAssume(c bool) {
	if !c {
		panic(vhAbort{"assumption does not hold"})
	}
}

func vAssert(id string, c bool) {
	if !c {
		vhFailures = append(vhFailures, id)
	}
}

func vReach(id string) { vhReached = append(vhReached, id) }

func vPanics(f func()) (p bool) {
	defer func() {
		if r := recover(); r != nil {
			if a, ok := r.(vhAbort); ok {
				panic(a)
			}
			p = true
		}
	}()
	f()
	return false
}

func vNoMerge(f func())       { f() }

// vSkipTables: inside f the executor does not run (*LunarYear).compute, so NewLunarYear can take a symbolic year;
// natively f simply runs (the table is computed, which does not affect the fields the harness looks at).
func vSkipTables(f func()) { f() }

// vApproxFloats: inside f the executor over-approximates inexact float64 operations with a sound error bound
// (engine/fapx.go); natively f simply runs.
func vApproxFloats(f func()) { f() }

// vApxWithin: |x - num/den| <= tol * 2^-40 (the executor decides it from the error bound it carries for x)
func vApxWithin(x float64, num, den, tol int) bool {
	d := x - float64(num)/float64(den)
	if d < 0 {
		d = -d
	}
	return d <= float64(tol)/1099511627776.0
}

// vApxFloat: for the executor an ARBITRARY float64 within tol * 2^-40 of num/den; natively the nominal value
func vApxFloat(num, den, tol int) float64 { return float64(num) / float64(den) }
func vFork(c bool) bool       { return c }
func vConcretize(x int) int   { return x }
func vNative() bool           { return true }
func vImplies(a, b bool) bool { return !a || b }

// vhRun runs a harness natively; returns (failures, aborted-why, panic text).
func vhRun(h func(), inputs, params map[string]int) (fails []string, aborted string, panicked string) {
	vhInputs, vhParams = inputs, params
	vhFailures, vhReached = nil, nil
	vhSeq = map[string]int{}
	defer func() {
		fails = vhFailures
		if r := recover(); r != nil {
			if a, ok := r.(vhAbort); ok {
				aborted = a.why
				return
			}
			panicked = vhSprint(r)
		}
	}()
	h()
	return
}

func vhSprint(r interface{}) string {
	switch x := r.(type) {
	case string:
		return x
	case error:
		return x.Error()
	}
	return "panic"
}

// vEach natively: run the block; an assumption of the block that does not hold for these inputs only skips the block
func vEach(f func()) {
	defer func() {
		if r := recover(); r != nil {
			if _, ok := r.(vhAbort); ok {
				return
			}
			panic(r)
		}
	}()
	f()
}

func vDump(name string, x interface{}) {}

func vHasParam(name string) bool { _, ok := vhParams[name]; return ok }

// vSharedWrites natively: the race detector decides (replays of these obligations are generated -race tests)
func vSharedWrites(f func()) int { f(); return 0 }
