package calendar

// C04 — civil date arithmetic (year-symbolic)

func vhDate(pfx string) (y, m, d int) {
	// optional range splitting on the year (unit parameters YLO/YHI)
	ylo, yhi := 1, 9998
	if vHasParam("YLO") {
		ylo, yhi = vParam("YLO"), vParam("YHI")
	}
	y, m, d = vInt(pfx+"y", ylo, yhi), vInt(pfx+"m", 1, 12), vInt(pfx+"d", 1, 31)
	vAssume(specValidYmd(y, m, d))
	return
}

// C04c: NextDay(n) is exact and invertible.
func VH_C04c_NextDay() {
	y, m, d := vhDate("")
	N := vParam("N")
	n := vInt("n", -N, N)
	s := NewSolar(y, m, d, 0, 0, 0)
	var t *Solar
	vAssert("nextday-no-panic", !vPanics(func() { t = s.NextDay(n) }))
	vAssume(t.year >= 1 && t.year <= 9998)
	vAssert("nextday-valid", specValidYmd(t.year, t.month, t.day))
	vAssert("nextday-jdn", specJDN(t.year, t.month, t.day) == specJDN(y, m, d)+n)
	u := t.NextDay(-n)
	vAssert("nextday-inverse", u.year == y && u.month == m && u.day == d)
	vReach("C04c")
}

// C04f: IsBefore / IsAfter are the strict tuple order.
func VH_C04f_Order() {
	ay, am, ad := vhDate("a")
	by, bm, bd := vhDate("b")
	ah, ai, as := vInt("ah", 0, 23), vInt("ai", 0, 59), vInt("as", 0, 59)
	bh, bi, bs := vInt("bh", 0, 23), vInt("bi", 0, 59), vInt("bs", 0, 59)
	a := NewSolar(ay, am, ad, ah, ai, as)
	b := NewSolar(by, bm, bd, bh, bi, bs)
	c := specCmp6(ay, am, ad, ah, ai, as, by, bm, bd, bh, bi, bs)
	vAssert("isbefore", a.IsBefore(b) == (c < 0))
	vAssert("isafter", a.IsAfter(b) == (c > 0))
	vAssert("exclusive", !(a.IsBefore(b) && a.IsAfter(b)))
	vReach("C04f")
}

// C04a: GetJulianDay at hour H (H multiple of 3) is JDN - 0.5 + H/24 exactly.
func VH_C04a_JulianDay() {
	y, m, d := vhDate("")
	H := vParam("H")
	s := NewSolar(y, m, d, H, 0, 0)
	jd := s.GetJulianDay()
	want := float64(specJDN(y, m, d)) - 0.5 + float64(H)/24
	vAssert("spec-forms-agree", specJDN(y, m, d) == specJDNF(y, m, d))
	vAssert("jd-exact", jd == want)
	// weekday from the same day number; advances by one per day (C04i)
	vAssert("week", s.GetWeek() == (specJDN(y, m, d)+1)%7)
	vReach("C04a")
}

// C04d/e: Subtract, SubtractMinute, GetDaysBetween agree with the day count.
func VH_C04d_Subtract() {
	ay, am, ad := vhDate("a")
	D := vParam("DY")
	dy := vInt("dy", -D, D)
	by := ay + dy
	vAssume(by >= 1 && by <= 9998)
	bm, bd := vInt("bm", 1, 12), vInt("bd", 1, 31)
	vAssume(specValidYmd(by, bm, bd))
	ah, ai := vInt("ah", 0, 23), vInt("ai", 0, 59)
	bh, bi := vInt("bh", 0, 23), vInt("bi", 0, 59)
	a := NewSolar(ay, am, ad, ah, ai, 0)
	b := NewSolar(by, bm, bd, bh, bi, 0)
	want := specJDN(ay, am, ad) - specJDN(by, bm, bd)
	vAssert("subtract", a.Subtract(b) == want)
	vAssert("subtract-minute", a.SubtractMinute(b) == want*1440+(ah*60+ai)-(bh*60+bi))
	vReach("C04d")
}

// C04g: NextHour(k) moves 24*JDN+hour by exactly k and keeps minute/second.
func VH_C04g_NextHour() {
	y, m, d := vhDate("")
	h, mi, sc := vInt("h", 0, 23), vInt("mi", 0, 59), vInt("s", 0, 59)
	K := vParam("K")
	k := vInt("k", -K, K)
	s := NewSolar(y, m, d, h, mi, sc)
	var t *Solar
	vAssert("nexthour-no-panic", !vPanics(func() { t = s.NextHour(k) }))
	vAssume(t.year >= 1 && t.year <= 9998)
	vAssert("nexthour-valid", specValidYmd(t.year, t.month, t.day) && specValidHms(t.hour, t.minute, t.second))
	vAssert("nexthour-exact", specJDN(t.year, t.month, t.day)*24+t.hour == specJDN(y, m, d)*24+h+k)
	vAssert("nexthour-keeps-ms", t.minute == mi && t.second == sc)
	vReach("C04g")
}

// C04h: NextMonth / NextYear land in the right month with the day clamped,
// never panic from a valid date, and skip the 1582-10 gap.
func VH_C04h_NextMonthYear() {
	y, m, d := vhDate("")
	K := vParam("K")
	k := vInt("k", -K, K)
	s := NewSolar(y, m, d, 1, 2, 3)
	ord := y*12 + (m - 1) + k
	ty, tm := ord/12, ord%12+1
	vAssume(ty >= 1 && ty <= 9998 && ord >= 12)
	var t *Solar
	vAssert("nextmonth-no-panic", !vPanics(func() { t = s.NextMonth(k) }))
	vAssert("nextmonth-month", t.year == ty && t.month == tm)
	vAssert("nextmonth-valid", specValidYmd(t.year, t.month, t.day))
	wd := d
	if wd > specLastDay(ty, tm) {
		wd = specLastDay(ty, tm)
	}
	if ty == 1582 && tm == 10 && wd > 4 && wd < 15 {
		wd += 10
	}
	vAssert("nextmonth-day", t.day == wd)
	vAssert("nextmonth-time", t.hour == 1 && t.minute == 2 && t.second == 3)
	// years
	ky := vInt("ky", -K/12-1, K/12+1)
	vAssume(y+ky >= 1 && y+ky <= 9998)
	var u *Solar
	vAssert("nextyear-no-panic", !vPanics(func() { u = s.NextYear(ky) }))
	vAssert("nextyear-ym", u.year == y+ky && u.month == m)
	vAssert("nextyear-valid", specValidYmd(u.year, u.month, u.day))
	wy := d
	if wy > specLastDay(y+ky, m) {
		wy = specLastDay(y+ky, m)
	}
	if y+ky == 1582 && m == 10 && wy > 4 && wy < 15 {
		wy += 10
	}
	vAssert("nextyear-day", u.day == wy)
	vReach("C04h")
}

// C04i: the 1582 switch and weekday continuity across every day boundary.
func VH_C04i_Switch() {
	y, m, d := vhDate("")
	s := NewSolar(y, m, d, 0, 0, 0)
	vAssume(!(y == 9998 && m == 12 && d == 31))
	t := s.NextDay(1)
	vAssert("weekday-continuous", t.GetWeek() == (s.GetWeek()+1)%7)
	vAssert("jdn-continuous", specJDN(t.year, t.month, t.day) == specJDN(y, m, d)+1)
	vAssert("leap-rule", s.IsLeapYear() == specLeap(y))
	// days of month / year against the spec
	dim := specLastDay(y, m)
	if y == 1582 && m == 10 {
		dim = 21
	}
	vAssert("days-of-month", vhDaysOfMonth(y, m) == dim)
	doy := 365
	if specLeap(y) {
		doy = 366
	}
	if y == 1582 {
		doy = 355
	}
	vAssert("days-of-year", vhDaysOfYear(y) == doy)
	vReach("C04i")
}

// concrete facts about October 1582
func VH_C04i_Gap() {
	d := vInt("d", 1, 31)
	p := vPanics(func() { NewSolar(1582, 10, d, 0, 0, 0) })
	vAssert("gap-rejected", p == (d > 4 && d < 15))
	n := NewSolar(1582, 10, 4, 0, 0, 0).NextDay(1)
	vAssert("gap-next", n.year == 1582 && n.month == 10 && n.day == 15)
	b := NewSolar(1582, 10, 15, 0, 0, 0).NextDay(-1)
	vAssert("gap-prev", b.year == 1582 && b.month == 10 && b.day == 4)
	vReach("C04iGap")
}

// C04j: every Julian Day value of a chunk of day numbers, at the resolution 1/D of the float64 grid there,
// converts to a valid date-time of the expected civil day (the day rolls over only through 24:00:00).
// jd = N - 0.5 + r/D with N in [NLO, NHI] and r in [0, D): these are exactly representable float64 values,
// so every float operation of the time-of-day part is exact; the day part uses host-computed tables.
func VH_C04j_FromJulianDay() {
	N := vInt("N", vParam("NLO"), vParam("NHI"))
	D := vParam("D")
	r := vInt("r", 0, D-1)
	jd := float64(N) - 0.5 + float64(r)/float64(D)
	var t *Solar
	vAssert("fromjd-no-panic", !vPanics(func() { t = NewSolarFromJulianDay(jd) }))
	vAssert("fromjd-valid", specValidYmd(t.year, t.month, t.day) && specValidHms(t.hour, t.minute, t.second))
	// seconds since the civil day N began, rounded to the nearest second (half up), may reach 86400 = next day 00:00:00
	sec := (2*r*86400 + D) / (2 * D)
	T := specJDN(t.year, t.month, t.day)
	vAssert("fromjd-day", (sec < 86400 && T == N) || (sec == 86400 && T == N+1))
	vAssert("fromjd-time", t.hour*3600+t.minute*60+t.second == sec%86400)
	vReach("C04j")
}

// C04k: a civil date-time converts to a Julian Day and back without change at ONE-SECOND resolution: every
// (y, m, d, h, mi, s), year symbolic.  The inexact float operations (s/60, /60, /24, the sums of magnitude 10^6, the
// divisions by 36524.25 / 365.25 / 30.601) are over-approximated with a sound rounding-error bound (vApproxFloats);
// int() and math.Round become integer variables constrained by that bound, so "unsat" holds for the real floats.
func VH_C04k_SecondRoundTrip() {
	y, m, d := vhDate("")
	h, mi, s := vInt("h", 0, 23), vInt("mi", 0, 59), vInt("s", 0, 59)
	sol := NewSolar(y, m, d, h, mi, s)
	var t *Solar
	vApproxFloats(func() {
		vAssert("second-round-trip-no-panic", !vPanics(func() { t = NewSolarFromJulianDay(sol.GetJulianDay()) }))
	})
	vAssert("second-round-trip", t.year == y && t.month == m && t.day == d && t.hour == h && t.minute == mi && t.second == s)
	vReach("C04k")
}

// C04l: EVERY float64 Julian Day value of the whole supported range (day numbers NLO..NHI at once, grid 1/D) converts to
// a valid date-time of the expected civil day.  As C04j, but the day part is not tabulated per chunk: its divisions
// are over-approximated with the rounding-error bound, so one query covers all day numbers.
func VH_C04l_FromJulianDayAll() {
	N := vInt("N", vParam("NLO"), vParam("NHI"))
	D := vParam("D")
	r := vInt("r", 0, D-1)
	jd := float64(N) - 0.5 + float64(r)/float64(D)
	var t *Solar
	vApproxFloats(func() {
		vAssert("fromjd-no-panic", !vPanics(func() { t = NewSolarFromJulianDay(jd) }))
	})
	vAssert("fromjd-valid", specValidYmd(t.year, t.month, t.day) && specValidHms(t.hour, t.minute, t.second))
	sec := (2*r*86400 + D) / (2 * D)
	T := specJDN(t.year, t.month, t.day)
	vAssert("fromjd-day", (sec < 86400 && T == N) || (sec == 86400 && T == N+1))
	vAssert("fromjd-time", t.hour*3600+t.minute*60+t.second == sec%86400)
	vReach("C04l")
}

// tolerance of the two halves of the one-second round trip: 2^-28 day (about 0.3 ms)
const vhJDTol = 4096

// C04k-encode: GetJulianDay of EVERY valid date-time (year symbolic) is within 2^-28 day of JDN - 0.5 + seconds/86400.
func VH_C04k_Encode() {
	y, m, d := vhDate("")
	h, mi, s := vInt("h", 0, 23), vInt("mi", 0, 59), vInt("s", 0, 59)
	sol := NewSolar(y, m, d, h, mi, s)
	vAssert("jdn-lemma", int(NewSolar(y, m, d, 0, 0, 0).GetJulianDay()+0.5) == specJDN(y, m, d))
	var jd float64
	vApproxFloats(func() { jd = sol.GetJulianDay() })
	vAssert("encode-within-tolerance", vApxWithin(jd, (2*specJDN(y, m, d)-1)*43200+h*3600+mi*60+s, 86400, vhJDTol))
	vReach("C04k-encode")
}

// C04k-decode: EVERY float64 within 2^-28 day of N - 0.5 + sec/86400 (day numbers NLO..NHI, every second) converts back to
// exactly day N at exactly that second.  With C04k-encode and the injectivity of the day number (C04a) this is the
// round trip "civil date-time -> Julian Day -> civil date-time" at one-second resolution for the whole range.
func VH_C04k_Decode() {
	N := vInt("N", vParam("NLO"), vParam("NHI"))
	sec := vInt("sec", 0, 86399)
	var t *Solar
	vApproxFloats(func() {
		jd := vApxFloat((2*N-1)*43200+sec, 86400, vhJDTol)
		vAssert("decode-no-panic", !vPanics(func() { t = NewSolarFromJulianDay(jd) }))
	})
	vAssert("decode-valid", specValidYmd(t.year, t.month, t.day) && specValidHms(t.hour, t.minute, t.second))
	vAssert("decode-time", t.hour*3600+t.minute*60+t.second == sec)
	vAssert("decode-day", specJDN(t.year, t.month, t.day) == N)
	vReach("C04k-decode")
}
