package calendar

// Reference computations used by the harnesses: plain integer arithmetic,
// deliberately not reusing the library routine under test.

func specLeap(y int) bool {
	if y < 1600 {
		return y%4 == 0
	}
	return (y%4 == 0 && y%100 != 0) || y%400 == 0
}

// specDim: days in month (1582-10 has its 21 existing days numbered 1..4,15..31;
// the *last* day number is 31).
func specLastDay(y, m int) int {
	switch m {
	case 4, 6, 9, 11:
		return 30
	case 2:
		if specLeap(y) {
			return 29
		}
		return 28
	}
	return 31
}

func specValidYmd(y, m, d int) bool {
	if m < 1 || m > 12 || d < 1 {
		return false
	}
	if d > specLastDay(y, m) {
		return false
	}
	if y == 1582 && m == 10 && d > 4 && d < 15 {
		return false
	}
	return true
}

func specValidHms(h, mi, s int) bool {
	return h >= 0 && h <= 23 && mi >= 0 && mi <= 59 && s >= 0 && s <= 59
}

// specJDN: Julian Day Number of the civil day (Julian calendar up to
// 1582-10-04, Gregorian from 1582-10-15), integer arithmetic only: the
// integer form of Meeus' algorithm.  specJDNF below is the independent
// Fliegel / Van Flandern form; check C04 proves the two equal for every
// date of years 1..9998, so either may serve as the reference.
func specJDN(y, m, d int) int {
	greg := y > 1582 || (y == 1582 && (m > 10 || (m == 10 && d >= 15)))
	if m <= 2 {
		m += 12
		y--
	}
	n := 0
	if greg {
		c := y / 100
		n = 2 - c + c/4
	}
	return (1461*(y+4716))/4 + (306001*(m+1))/10000 + d + n - 1524
}

func specJDNF(y, m, d int) int {
	a := (14 - m) / 12
	yy := y + 4800 - a
	mm := m + 12*a - 3
	greg := y > 1582 || (y == 1582 && (m > 10 || (m == 10 && d >= 15)))
	if greg {
		return d + (153*mm+2)/5 + 365*yy + yy/4 - yy/100 + yy/400 - 32045
	}
	return d + (153*mm+2)/5 + 365*yy + yy/4 - 32083
}

func specCmp6(ay, am, ad, ah, ai, as, by, bm, bd, bh, bi, bs int) int {
	if ay != by {
		if ay < by {
			return -1
		}
		return 1
	}
	if am != bm {
		if am < bm {
			return -1
		}
		return 1
	}
	if ad != bd {
		if ad < bd {
			return -1
		}
		return 1
	}
	if ah != bh {
		if ah < bh {
			return -1
		}
		return 1
	}
	if ai != bi {
		if ai < bi {
			return -1
		}
		return 1
	}
	if as != bs {
		if as < bs {
			return -1
		}
		return 1
	}
	return 0
}
