package calendar

import "strings"

func vhDigit(b byte) int { return int(b - '0') }

// C19a: fixed-width forms parse back, and lexicographic order is chronological order.
func VH_C19_Civil() {
	ay, am, ad := vInt("ay", 1, 9999), vInt("am", 1, 12), vInt("ad", 1, 31)
	vAssume(specValidYmd(ay, am, ad))
	by, bm, bd := vInt("by", 1, 9999), vInt("bm", 1, 12), vInt("bd", 1, 31)
	vAssume(specValidYmd(by, bm, bd))
	ah, ai, as := vInt("ah", 0, 23), vInt("ai", 0, 59), vInt("as", 0, 59)
	bh, bi, bs := vInt("bh", 0, 23), vInt("bi", 0, 59), vInt("bs", 0, 59)
	a := NewSolar(ay, am, ad, ah, ai, as)
	b := NewSolar(by, bm, bd, bh, bi, bs)
	sa, sb := a.ToYmd(), b.ToYmd()
	la, lb := a.ToYmdHms(), b.ToYmdHms()
	vAssert("ymd-len", len(sa) == 10)
	vAssert("ymdhms-len", len(la) == 19)
	vAssert("string-is-ymd", a.String() == sa)
	// parse back
	vAssert("ymd-seps", sa[4] == '-' && sa[7] == '-')
	vAssert("ymd-year", vhDigit(sa[0])*1000+vhDigit(sa[1])*100+vhDigit(sa[2])*10+vhDigit(sa[3]) == ay)
	vAssert("ymd-month", vhDigit(sa[5])*10+vhDigit(sa[6]) == am)
	vAssert("ymd-day", vhDigit(sa[8])*10+vhDigit(sa[9]) == ad)
	vAssert("hms-seps", la[10] == ' ' && la[13] == ':' && la[16] == ':')
	vAssert("hms-prefix", la[:10] == sa)
	vAssert("hms-hour", vhDigit(la[11])*10+vhDigit(la[12]) == ah)
	vAssert("hms-minute", vhDigit(la[14])*10+vhDigit(la[15]) == ai)
	vAssert("hms-second", vhDigit(la[17])*10+vhDigit(la[18]) == as)
	// order
	c3 := specCmp6(ay, am, ad, 0, 0, 0, by, bm, bd, 0, 0, 0)
	c6 := specCmp6(ay, am, ad, ah, ai, as, by, bm, bd, bh, bi, bs)
	vAssert("ymd-order", strings.Compare(sa, sb) == c3)
	vAssert("ymdhms-order", strings.Compare(la, lb) == c6)
	vAssert("ymdhms-lt", (la < lb) == (c6 < 0))
	vReach("C19a")
}
