package calendar

import "strings"

func vhDigit(b byte) int { return int(b - '0') }

// C19a: fixed-width forms parse back, and lexicographic order is chronological order.
func VH_C19_Civil() {
	ay, am, ad := vInt("ay", 1, 9999), vInt("am", 1, 12), vInt("ad", 1, 31)
	vAssume(specValidYmd(ay, am, ad))
	by, bm, bd := vInt("by", 1, 9999), vInt("bm", 1, 12), vInt("bd", 1, 31)
	vAssume(specValidYmd(by, bm, bd))
	ah, ai, as := vInt("ah", 0, 23), vInt("ai", 0, 59), vInt("as", 0, 59)
	bh, bi, bs := vInt("bh", 0, 23), vInt("bi", 0, 59), vInt("bs", 0, 59)
	a := NewSolar(ay, am, ad, ah, ai, as)
	b := NewSolar(by, bm, bd, bh, bi, bs)
	sa, sb := a.ToYmd(), b.ToYmd()
	la, lb := a.ToYmdHms(), b.ToYmdHms()
	vAssert("ymd-len", len(sa) == 10)
	vAssert("ymdhms-len", len(la) == 19)
	vAssert("string-is-ymd", a.String() == sa)
	// parse back
	vAssert("ymd-seps", sa[4] == '-' && sa[7] == '-')
	vAssert("ymd-year", vhDigit(sa[0])*1000+vhDigit(sa[1])*100+vhDigit(sa[2])*10+vhDigit(sa[3]) == ay)
	vAssert("ymd-month", vhDigit(sa[5])*10+vhDigit(sa[6]) == am)
	vAssert("ymd-day", vhDigit(sa[8])*10+vhDigit(sa[9]) == ad)
	vAssert("hms-seps", la[10] == ' ' && la[13] == ':' && la[16] == ':')
	vAssert("hms-prefix", la[:10] == sa)
	vAssert("hms-hour", vhDigit(la[11])*10+vhDigit(la[12]) == ah)
	vAssert("hms-minute", vhDigit(la[14])*10+vhDigit(la[15]) == ai)
	vAssert("hms-second", vhDigit(la[17])*10+vhDigit(la[18]) == as)
	// order
	c3 := specCmp6(ay, am, ad, 0, 0, 0, by, bm, bd, 0, 0, 0)
	c6 := specCmp6(ay, am, ad, ah, ai, as, by, bm, bd, bh, bi, bs)
	vAssert("ymd-order", strings.Compare(sa, sb) == c3)
	vAssert("ymdhms-order", strings.Compare(la, lb) == c6)
	vAssert("ymdhms-lt", (la < lb) == (c6 < 0))
	vReach("C19a")
}

// spec renderings (digit by digit year, optional leap marker, month name, day name)
func specYearInChinese(y, digits int) string {
	// the unit fixes the number of digits of y, so the rendering has a fixed layout
	s := ""
	div := 1
	for i := 1; i < digits; i++ {
		div *= 10
	}
	for div >= 1 {
		s += vhNUMBER((y / div) % 10)
		div /= 10
	}
	return s
}

func vhNUMBER(d int) string {
	return []string{"〇", "一", "二", "三", "四", "五", "六", "七", "八", "九"}[d]
}

var vhMONTH = []string{"", "正", "二", "三", "四", "五", "六", "七", "八", "九", "十", "冬", "腊"}
var vhDAY = []string{"", "初一", "初二", "初三", "初四", "初五", "初六", "初七", "初八", "初九", "初十", "十一", "十二", "十三", "十四", "十五", "十六", "十七", "十八", "十九", "二十", "廿一", "廿二", "廿三", "廿四", "廿五", "廿六", "廿七", "廿八", "廿九", "三十"}

func specMonthInChinese(m int) string {
	if m < 0 {
		return "闰" + vhMONTH[-m]
	}
	return vhMONTH[m]
}

// a lunar date object with the given (symbolic) year / month / day; the renderings read only these fields
func vhLunarYmd(y, m, d int) *Lunar {
	return &Lunar{year: y, month: m, day: d, solar: NewSolar(2020, 1, 1, 0, 0, 0)}
}

// C19b: Chinese renderings of lunar, Taoist and Buddhist dates: digit-by-digit, injective.
// Units fix the digit count of each year (YLO..YHI) and the sign of each month (LEAPA / LEAPB).
func VH_C19_Chinese() {
	ya, yb := vInt("ya", vParam("YALO"), vParam("YAHI")), vInt("yb", vParam("YBLO"), vParam("YBHI"))
	ma, mb := vInt("ma", 1, 12), vInt("mb", 1, 12)
	if vParam("LEAPA") == 1 {
		ma = -ma
	}
	if vParam("LEAPB") == 1 {
		mb = -mb
	}
	da, db := vInt("da", 1, 30), vInt("db", 1, 30)
	off := vParam("OFF") // 0: lunar, 2697: Taoist, 544: Buddhist
	a, b := vhLunarYmd(ya, ma, da), vhLunarYmd(yb, mb, db)
	var sa, sb, ay string
	switch off {
	case 0:
		sa, sb, ay = a.String(), b.String(), a.GetYearInChinese()
	case 2697:
		sa, sb, ay = a.GetTao().String(), b.GetTao().String(), a.GetTao().GetYearInChinese()
	default:
		sa, sb, ay = a.GetFoto().String(), b.GetFoto().String(), a.GetFoto().GetYearInChinese()
	}
	// component renderings
	vAssert("year-digit-by-digit", ay == specYearInChinese(ya+off, vParam("KA")))
	vAssert("month-name", a.GetMonthInChinese() == specMonthInChinese(ma))
	vAssert("day-name", a.GetDayInChinese() == vhDAY[da])
	vAssert("composition", sa == specYearInChinese(ya+off, vParam("KA"))+"年"+specMonthInChinese(ma)+"月"+vhDAY[da])
	// injectivity: equal renderings only for equal dates
	vAssert("injective", !(sa == sb) || (ya == yb && ma == mb && da == db))
	vReach("C19b")
}
