package HolidayUtil

import "container/list"

type vhRec struct {
	y, m, d    int
	name       int
	work       bool
	ty, tm, td int
}

func vhNum(s string) int {
	n := 0
	for i := 0; i < len(s); i++ {
		n = n*10 + int(s[i]-'0')
	}
	return n
}

// vhRecords: the raw packed table parsed independently of the lookup code, 18 characters per record
func vhRecords() []vhRec {
	var rs []vhRec
	for i := 0; i+18 <= len(dataInUse); i += 18 {
		s := dataInUse[i : i+18]
		rs = append(rs, vhRec{vhNum(s[0:4]), vhNum(s[4:6]), vhNum(s[6:8]), vhNum(s[8:9]), s[9:10] == "0", vhNum(s[10:14]), vhNum(s[14:16]), vhNum(s[16:18])})
	}
	return rs
}

func vhYmd(y, m, d int) string {
	f := func(n, w int) string {
		s := ""
		for i := 0; i < w; i++ {
			s = string(rune('0'+n%10)) + s
			n /= 10
		}
		return s
	}
	return f(y, 4) + "-" + f(m, 2) + "-" + f(d, 2)
}

func vhSame(h *Holiday, r vhRec) bool {
	return h != nil && h.GetDay() == vhYmd(r.y, r.m, r.d) && h.GetName() == namesInUse[r.name] && h.IsWork() == r.work && h.GetTarget() == vhYmd(r.ty, r.tm, r.td)
}

func vhListIs(l *list.List, want []vhRec) bool {
	if l == nil || l.Len() != len(want) {
		return false
	}
	i := 0
	ok := true
	for e := l.Front(); e != nil; e = e.Next() {
		if !vhSame(e.Value.(*Holiday), want[i]) {
			ok = false
		}
		i++
	}
	return ok
}

// C14a: day lookup for a symbolic day of a table month; month, year and target lookups of that month / its days.
func VH_C14_Views() {
	Y, m := vParam("Y"), vParam("M")
	d := vInt("d", 1, 31)
	rs := vhRecords()
	// day view: the first record of that day, nil iff none
	vEach(func() {
		h := GetHolidayByYmd(Y, m, d)
		idx := -1
		for i, r := range rs {
			if idx < 0 && r.y == Y && r.m == m && r.d == d {
				idx = i
			}
		}
		vAssert("day:nil-iff-none", (h == nil) == (idx < 0))
		if h != nil {
			k := vConcretize(idx)
			vAssert("day:record", vhSame(h, rs[k]))
		}
	})
	// month and year views (concrete): exactly the records with that prefix, in table order
	var mon, yr []vhRec
	for _, r := range rs {
		if r.y == Y {
			yr = append(yr, r)
			if r.m == m {
				mon = append(mon, r)
			}
		}
	}
	vAssert("month:view", vhListIs(GetHolidaysByYm(Y, m), mon))
	vAssert("year:view", vhListIs(GetHolidaysByYear(Y), yr))
	for i := 1; i < len(yr); i++ {
		vAssert("year:date-order", yr[i-1].m*100+yr[i-1].d <= yr[i].m*100+yr[i].d)
	}
	// target view for a symbolic target day of this month
	vEach(func() {
		dd := vConcretize(d)
		var want []vhRec
		for _, r := range rs {
			if r.ty == Y && r.tm == m && r.td == dd {
				want = append(want, r)
			}
		}
		vAssert("target:view", vhListIs(GetHolidaysByTargetYmd(Y, m, dd), want))
	})
	vReach("C14a")
}

func vhSeg(r vhRec, workFlag string) string {
	f := func(n, w int) string {
		s := ""
		for i := 0; i < w; i++ {
			s = string(rune('0'+n%10)) + s
			n /= 10
		}
		return s
	}
	return f(r.y, 4) + f(r.m, 2) + f(r.d, 2) + f(r.name, 1) + workFlag + f(r.ty, 4) + f(r.tm, 2) + f(r.td, 2)
}

func vhListHasRec(l *list.List, r vhRec) bool {
	n := 0
	for e := l.Front(); e != nil; e = e.Next() {
		if vhSame(e.Value.(*Holiday), r) {
			n++
		}
	}
	return n == 1
}

func vhSameRecs(a, b []vhRec) bool {
	if len(a) != len(b) {
		return false
	}
	for i := range a {
		if a[i] != b[i] {
			return false
		}
	}
	return true
}

// C14d: a one-segment fix-up that replaces, removes or adds a record is reflected exactly; all other records are unchanged.
// The record is chosen by a symbolic index (case-split by the solver over every record of the table).
func VH_C14_Fix() {
	saved, savedNames := dataInUse, namesInUse
	defer func() { dataInUse, namesInUse = saved, savedNames }()
	rs := vhRecords()
	lo, hi := vParam("LO"), vParam("HI")
	if hi >= len(rs) {
		hi = len(rs) - 1
	}
	if lo > hi {
		vReach("C14d")
		return
	}
	i := vConcretize(vInt("i", lo, hi))
	op := vConcretize(vInt("op", 0, 3))
	r := rs[i]
	// the day must be unique in the table for "the record of that day" to be well defined
	n := 0
	for _, x := range rs {
		if x.y == r.y && x.m == r.m && x.d == r.d {
			n++
		}
	}
	vAssume(n == 1)
	var want []vhRec
	switch op {
	case 0: // replace: toggle the work flag
		flag := "0"
		if r.work {
			flag = "1"
		}
		Fix(nil, vhSeg(r, flag))
		for k, x := range rs {
			if k == i {
				x.work = !x.work
			}
			want = append(want, x)
		}
	case 1: // remove
		seg := vhSeg(r, "0")
		Fix(nil, seg[:8]+"~"+seg[9:])
		for k, x := range rs {
			if k != i {
				want = append(want, x)
			}
		}
	case 3: // a fix-up that extends the festival names, then replaces and removes a record carrying the new name
		if len(namesInUse) > 9 {
			vReach("C14d")
			return
		}
		names := append(append([]string{}, namesInUse...), "新节")
		nr := r
		nr.y, nr.ty, nr.name = r.y+30, r.ty+30, len(names)-1
		flag, other := "1", "0"
		if nr.work {
			flag, other = "0", "1"
		}
		Fix(names, vhSeg(nr, flag))
		h := GetHolidayByYmd(nr.y, nr.m, nr.d)
		vAssert("fix:new-name-added", vhSame(h, nr))
		Fix(nil, vhSeg(nr, other)) // replace: work flag toggled
		h = GetHolidayByYmd(nr.y, nr.m, nr.d)
		vAssert("fix:new-name-replaced", h != nil && h.IsWork() == !nr.work && h.GetName() == "新节")
		seg := vhSeg(nr, other)
		Fix(nil, seg[:8]+"~"+seg[9:]) // remove
		vAssert("fix:new-name-removed", GetHolidayByYmd(nr.y, nr.m, nr.d) == nil)
		want = append(want, rs...)
	default: // add a record for a day that has none: the same month-day thirty years later
		nr := r
		nr.y, nr.ty = r.y+30, r.ty+30
		flag := "1"
		if nr.work {
			flag = "0"
		}
		Fix(nil, vhSeg(nr, flag))
		want = append(append(want, rs...), nr)
		h := GetHolidayByYmd(nr.y, nr.m, nr.d)
		vAssert("fix:added-visible", vhSame(h, nr))
		// the added record is the last one of the table: it must show in its target's, month's and year's views too
		vAssert("fix:added-visible-by-target", vhListHasRec(GetHolidaysByTargetYmd(nr.ty, nr.tm, nr.td), nr))
		vAssert("fix:added-visible-by-month", vhListHasRec(GetHolidaysByYm(nr.y, nr.m), nr))
		vAssert("fix:added-visible-by-year", vhListHasRec(GetHolidaysByYear(nr.y), nr))
	}
	vAssert("fix:table-exact", vhSameRecs(vhRecords(), want))
	h := GetHolidayByYmd(r.y, r.m, r.d)
	switch op {
	case 3:
		vAssert("fix:original-kept", vhSame(h, r))
	case 0:
		vAssert("fix:replaced-visible", h != nil && h.IsWork() == !r.work && h.GetName() == namesInUse[r.name])
	case 1:
		vAssert("fix:removed-invisible", h == nil)
	default:
		vAssert("fix:original-kept", vhSame(h, r))
	}
	vReach("C14d")
}
