package HolidayUtil

import "container/list"

type vhRec struct {
	y, m, d    int
	name       int
	work       bool
	ty, tm, td int
}

func vhNum(s string) int {
	n := 0
	for i := 0; i < len(s); i++ {
		n = n*10 + int(s[i]-'0')
	}
	return n
}

// vhRecords: the raw packed table parsed independently of the lookup code, 18 characters per record
func vhRecords() []vhRec {
	var rs []vhRec
	for i := 0; i+18 <= len(dataInUse); i += 18 {
		s := dataInUse[i : i+18]
		rs = append(rs, vhRec{vhNum(s[0:4]), vhNum(s[4:6]), vhNum(s[6:8]), vhNum(s[8:9]), s[9:10] == "0", vhNum(s[10:14]), vhNum(s[14:16]), vhNum(s[16:18])})
	}
	return rs
}

func vhYmd(y, m, d int) string {
	f := func(n, w int) string {
		s := ""
		for i := 0; i < w; i++ {
			s = string(rune('0'+n%10)) + s
			n /= 10
		}
		return s
	}
	return f(y, 4) + "-" + f(m, 2) + "-" + f(d, 2)
}

func vhSame(h *Holiday, r vhRec) bool {
	return h != nil && h.GetDay() == vhYmd(r.y, r.m, r.d) && h.GetName() == namesInUse[r.name] && h.IsWork() == r.work && h.GetTarget() == vhYmd(r.ty, r.tm, r.td)
}

func vhListIs(l *list.List, want []vhRec) bool {
	if l == nil || l.Len() != len(want) {
		return false
	}
	i := 0
	ok := true
	for e := l.Front(); e != nil; e = e.Next() {
		if !vhSame(e.Value.(*Holiday), want[i]) {
			ok = false
		}
		i++
	}
	return ok
}

// C14a: day lookup for a symbolic day of a table month; month, year and target lookups of that month / its days.
func VH_C14_Views() {
	Y, m := vParam("Y"), vParam("M")
	d := vInt("d", 1, 31)
	rs := vhRecords()
	// day view: the first record of that day, nil iff none
	vEach(func() {
		h := GetHolidayByYmd(Y, m, d)
		idx := -1
		for i, r := range rs {
			if idx < 0 && r.y == Y && r.m == m && r.d == d {
				idx = i
			}
		}
		vAssert("day:nil-iff-none", (h == nil) == (idx < 0))
		if h != nil {
			k := vConcretize(idx)
			vAssert("day:record", vhSame(h, rs[k]))
		}
	})
	// month and year views (concrete): exactly the records with that prefix, in table order
	var mon, yr []vhRec
	for _, r := range rs {
		if r.y == Y {
			yr = append(yr, r)
			if r.m == m {
				mon = append(mon, r)
			}
		}
	}
	vAssert("month:view", vhListIs(GetHolidaysByYm(Y, m), mon))
	vAssert("year:view", vhListIs(GetHolidaysByYear(Y), yr))
	for i := 1; i < len(yr); i++ {
		vAssert("year:date-order", yr[i-1].m*100+yr[i-1].d <= yr[i].m*100+yr[i].d)
	}
	// target view for a symbolic target day of this month
	vEach(func() {
		dd := vConcretize(d)
		var want []vhRec
		for _, r := range rs {
			if r.ty == Y && r.tm == m && r.td == dd {
				want = append(want, r)
			}
		}
		vAssert("target:view", vhListIs(GetHolidaysByTargetYmd(Y, m, dd), want))
	})
	vReach("C14a")
}
