package main

// float64 layer.  A symbolic float is either
//   *FRat  num/den, den a power of two, |num| < 2^53: every operation whose
//          exact real result is again of that form IS the IEEE result;
//   *FTab  a table over one small-range Int term; entries are computed by
//          the host's IEEE arithmetic, so inexact operations are exact here.
// Anything else is reported as unsupported (unit not encodable).

import (
	"fmt"
	"go/token"
	"math"

	"golang.org/x/tools/go/ssa"
)

const maxExact = int64(1) << 53
const maxTab = 8192

func (m *Machine) floatFromInt(t *Term) value {
	if t.IsConst() {
		return float64(t.k)
	}
	if t.lo <= -maxExact || t.hi >= maxExact {
		panic(unsupported("float64(int) beyond 2^53"))
	}
	return &FRat{num: t, den: 1}
}

func (m *Machine) normRat(num *Term, den int64) value {
	if num.IsConst() {
		return float64(num.k) / float64(den)
	}
	return &FRat{num: num, den: den}
}

func (m *Machine) ratOfConst(c float64) (*FRat, bool) {
	n, d, ok := dyadic(c)
	if !ok {
		return nil, false
	}
	return &FRat{num: m.tb.Int(n), den: d}, true
}

func exactNum(t *Term) bool { return t.lo > -maxExact && t.hi < maxExact }

// toTab converts a float value into a table over `arg` if possible.
func (m *Machine) toTab(v value) (*FTab, bool) {
	switch v := v.(type) {
	case *FTab:
		return v, true
	case *FRat:
		if v.num.lo <= -inf || v.num.hi >= inf {
			return nil, false
		}
		w := v.num.hi - v.num.lo + 1
		if w > maxTab {
			return nil, false
		}
		vals := make([]float64, w)
		for i := range vals {
			vals[i] = float64(v.num.lo+int64(i)) / float64(v.den)
		}
		return &FTab{arg: v.num, lo: v.num.lo, vals: vals}, true
	}
	return nil, false
}

func (m *Machine) tabMap(t *FTab, f func(float64) float64) value {
	vals := make([]float64, len(t.vals))
	same := true
	for i, x := range t.vals {
		vals[i] = f(x)
		if i > 0 && !(vals[i] == vals[0]) {
			same = false
		}
	}
	if same && len(vals) > 0 && !math.IsNaN(vals[0]) {
		return vals[0]
	}
	return &FTab{arg: t.arg, lo: t.lo, vals: vals}
}

func (m *Machine) tabBool(t *FTab, f func(float64) bool) value {
	vals := make([]int64, len(t.vals))
	for i, x := range t.vals {
		vals[i] = b2i(f(x))
	}
	tt := m.tb.Table(t.arg, t.lo, vals)
	return m.simp(m.tb.Eq(tt, m.tb.Int(1)))
}

func fop(op token.Token, a, b float64) float64 {
	switch op {
	case token.ADD:
		return a + b
	case token.SUB:
		return a - b
	case token.MUL:
		return a * b
	case token.QUO:
		return a / b
	}
	panic("fop")
}

func fcmp(op token.Token, a, b float64) bool {
	switch op {
	case token.EQL:
		return a == b
	case token.NEQ:
		return a != b
	case token.LSS:
		return a < b
	case token.LEQ:
		return a <= b
	case token.GTR:
		return a > b
	case token.GEQ:
		return a >= b
	}
	panic("fcmp")
}

func isCmp(op token.Token) bool {
	switch op {
	case token.EQL, token.NEQ, token.LSS, token.LEQ, token.GTR, token.GEQ:
		return true
	}
	return false
}

// FUnknown: a float64 whose value the encoding cannot represent (inexact operation over several
// symbolic inputs).  It may flow through further arithmetic and be returned or stored; any
// attempt to compare it or convert it to an integer aborts the unit as not encodable.
type FUnknown struct{ why string }

func (m *Machine) floatBinop(op token.Token, x, y value, in ssa.Instruction) value {
	if u, ok := x.(FUnknown); ok {
		if isCmp(op) {
			panic(unsupported("comparison on a float the encoding cannot represent: " + u.why))
		}
		return u
	}
	if u, ok := y.(FUnknown); ok {
		if isCmp(op) {
			panic(unsupported("comparison on a float the encoding cannot represent: " + u.why))
		}
		return u
	}
	_, xApx := x.(*FApx)
	_, yApx := y.(*FApx)
	if xApx || yApx {
		if isCmp(op) {
			return m.apxCmp(op, x, y)
		}
		if r, ok := m.apxBinop(op, x, y); ok {
			return r
		}
		return FUnknown{fmt.Sprintf("float op %s on approximated operands at %s", op, posOf(m.prog, in.Pos()))}
	}
	xc, xConc := x.(float64)
	yc, yConc := y.(float64)
	if xConc && yConc {
		if isCmp(op) {
			return fcmp(op, xc, yc)
		}
		return fop(op, xc, yc)
	}
	tb := m.tb
	// try exact rational path
	xr, xIsR := x.(*FRat)
	yr, yIsR := y.(*FRat)
	if xConc {
		xr, xIsR = m.ratOfConst(xc)
	}
	if yConc {
		yr, yIsR = m.ratOfConst(yc)
	}
	if isCmp(op) {
		if xIsR && yIsR {
			a := tb.MulC(xr.num, yr.den)
			b := tb.MulC(yr.num, xr.den)
			return m.cmpTerms(op, a, b)
		}
		// FRat vs arbitrary constant
		if r, ok := x.(*FRat); ok && yConc {
			return m.cmpRatConst(op, r, yc)
		}
		if r, ok := y.(*FRat); ok && xConc {
			return m.cmpRatConst(flipCmp(op), r, xc)
		}
	} else if xIsR && yIsR {
		switch op {
		case token.ADD, token.SUB:
			d := xr.den
			if yr.den > d {
				d = yr.den
			}
			a := tb.MulC(xr.num, d/xr.den)
			b := tb.MulC(yr.num, d/yr.den)
			var n *Term
			if op == token.ADD {
				n = tb.Add(a, b)
			} else {
				n = tb.Sub(a, b)
			}
			if exactNum(n) && exactNum(a) && exactNum(b) {
				return m.reduceRat(n, d)
			}
		case token.MUL:
			if xr.num.IsConst() || yr.num.IsConst() {
				n := tb.Mul(xr.num, yr.num)
				d := xr.den * yr.den
				if exactNum(n) && d > 0 && d < int64(1)<<50 {
					return m.reduceRat(n, d)
				}
			}
		case token.QUO:
			if yr.num.IsConst() && (yr.num.k == 1 || yr.num.k == -1) {
				// division by ±1/den == multiplication by ±den
				n := tb.MulC(xr.num, yr.num.k*yr.den)
				if exactNum(n) {
					return m.reduceRat(n, xr.den)
				}
			}
			if yr.num.IsConst() && isPow2(abs64(yr.num.k)) && yr.den == 1 {
				d := xr.den * abs64(yr.num.k)
				n := xr.num
				if yr.num.k < 0 {
					n = tb.Neg(n)
				}
				if d < int64(1)<<50 {
					return m.reduceRat(n, d)
				}
			}
		}
	}
	// approximation path (opt-in): inexact operation with a sound error bound instead of a table
	if m.apxFloats && !isCmp(op) {
		if r, ok := m.apxBinop(op, x, y); ok {
			return r
		}
	}
	// table path
	xt, xIsT := m.toTab(x)
	yt, yIsT := m.toTab(y)
	apply := func(f func(a, b float64) float64, g func(a, b float64) bool) value {
		switch {
		case xIsT && yConc:
			if g != nil {
				return m.tabBool(xt, func(a float64) bool { return g(a, yc) })
			}
			return m.tabMap(xt, func(a float64) float64 { return f(a, yc) })
		case xConc && yIsT:
			if g != nil {
				return m.tabBool(yt, func(b float64) bool { return g(xc, b) })
			}
			return m.tabMap(yt, func(b float64) float64 { return f(xc, b) })
		case xIsT && yIsT:
			if xt.arg == yt.arg {
				lo := max64(xt.lo, yt.lo)
				hi := min64(xt.lo+int64(len(xt.vals)), yt.lo+int64(len(yt.vals))) - 1
				if hi >= lo {
					n := hi - lo + 1
					if g != nil {
						vals := make([]int64, n)
						for i := range vals {
							vals[i] = b2i(g(xt.vals[lo-xt.lo+int64(i)], yt.vals[lo-yt.lo+int64(i)]))
						}
						return m.simp(tb.Eq(tb.Table(xt.arg, lo, vals), tb.Int(1)))
					}
					vals := make([]float64, n)
					for i := range vals {
						vals[i] = f(xt.vals[lo-xt.lo+int64(i)], yt.vals[lo-yt.lo+int64(i)])
					}
					return &FTab{arg: xt.arg, lo: lo, vals: vals}
				}
			}
			// two different small args: build a 2-D table over a combined index
			nx, ny := int64(len(xt.vals)), int64(len(yt.vals))
			if nx*ny <= maxTab {
				idx := tb.Add(tb.MulC(tb.Sub(xt.arg, tb.Int(xt.lo)), ny), tb.Sub(yt.arg, tb.Int(yt.lo)))
				// idx is only meaningful when both args are within their ranges
				if g != nil {
					vals := make([]int64, nx*ny)
					for i := int64(0); i < nx; i++ {
						for j := int64(0); j < ny; j++ {
							vals[i*ny+j] = b2i(g(xt.vals[i], yt.vals[j]))
						}
					}
					return m.simp(tb.Eq(tb.Table(idx, 0, vals), tb.Int(1)))
				}
				vals := make([]float64, nx*ny)
				for i := int64(0); i < nx; i++ {
					for j := int64(0); j < ny; j++ {
						vals[i*ny+j] = f(xt.vals[i], yt.vals[j])
					}
				}
				return &FTab{arg: idx, lo: 0, vals: vals}
			}
		}
		why := fmt.Sprintf("float op %s on %s / %s at %s: not exactly representable and no small table", op, fdesc(x), fdesc(y), posOf(m.prog, in.Pos()))
		if g != nil {
			panic(unsupported(why))
		}
		return FUnknown{why}
	}
	if isCmp(op) {
		return apply(nil, func(a, b float64) bool { return fcmp(op, a, b) })
	}
	return apply(func(a, b float64) float64 { return fop(op, a, b) }, nil)
}

func fdesc(v value) string {
	switch v := v.(type) {
	case float64:
		return fmt.Sprint(v)
	case *FRat:
		return fmt.Sprintf("FRat{[%d,%d]/%d}", v.num.lo, v.num.hi, v.den)
	case *FTab:
		return fmt.Sprintf("FTab{%d entries}", len(v.vals))
	case *FApx:
		return fmt.Sprintf("FApx{[%d,%d]/%d +-[%d,%d]u}", v.num.lo, v.num.hi, v.den, v.err.lo, v.err.hi)
	}
	return fmt.Sprintf("%T", v)
}

func abs64(a int64) int64 {
	if a < 0 {
		return -a
	}
	return a
}

func flipCmp(op token.Token) token.Token {
	switch op {
	case token.LSS:
		return token.GTR
	case token.LEQ:
		return token.GEQ
	case token.GTR:
		return token.LSS
	case token.GEQ:
		return token.LEQ
	}
	return op
}

func (m *Machine) cmpTerms(op token.Token, a, b *Term) value {
	tb := m.tb
	switch op {
	case token.EQL:
		return m.simp(tb.Eq(a, b))
	case token.NEQ:
		return m.simp(tb.Not(tb.Eq(a, b)))
	case token.LSS:
		return m.simp(tb.Lt(a, b))
	case token.LEQ:
		return m.simp(tb.Le(a, b))
	case token.GTR:
		return m.simp(tb.Lt(b, a))
	case token.GEQ:
		return m.simp(tb.Le(b, a))
	}
	panic("cmpTerms")
}

// cmpRatConst: num/den (op) c for an arbitrary finite constant c.
func (m *Machine) cmpRatConst(op token.Token, r *FRat, c float64) value {
	s := c * float64(r.den) // exact: scaling by a power of two
	if math.IsInf(s, 0) || math.IsNaN(s) || math.Abs(s) >= float64(maxExact) {
		panic(unsupported("float comparison constant out of range"))
	}
	fl, ce := int64(math.Floor(s)), int64(math.Ceil(s))
	tb := m.tb
	switch op {
	case token.EQL:
		if fl != ce {
			return false
		}
		return m.simp(tb.Eq(r.num, tb.Int(fl)))
	case token.NEQ:
		if fl != ce {
			return true
		}
		return m.simp(tb.Not(tb.Eq(r.num, tb.Int(fl))))
	case token.LSS: // num < s  <=> num < ceil(s)
		return m.simp(tb.Lt(r.num, tb.Int(ce)))
	case token.LEQ: // num <= s <=> num <= floor(s)
		return m.simp(tb.Le(r.num, tb.Int(fl)))
	case token.GTR:
		return m.simp(tb.Lt(tb.Int(fl), r.num))
	case token.GEQ:
		return m.simp(tb.Le(tb.Int(ce), r.num))
	}
	panic("cmpRatConst")
}

// reduceRat lowers the denominator when every coefficient is even.
func (m *Machine) reduceRat(n *Term, d int64) value {
	for d > 1 {
		l := &lin{coef: map[*Term]int64{}}
		m.tb.linOf(n, 1, l)
		even := l.k%2 == 0
		for _, c := range l.coef {
			if c%2 != 0 {
				even = false
			}
		}
		if !even {
			break
		}
		l.k /= 2
		for t := range l.coef {
			l.coef[t] /= 2
		}
		n = m.tb.fromLin(l)
		d /= 2
	}
	return m.normRat(n, d)
}

func (m *Machine) floatToInt(x value, in ssa.Instruction) value {
	switch x := x.(type) {
	case FUnknown:
		panic(unsupported("int() of a float the encoding cannot represent: " + x.why))
	case float64:
		if math.IsNaN(x) || math.Abs(x) >= 9.2e18 {
			panic(unsupported("float to int out of range"))
		}
		return int64(x)
	case *FRat:
		return m.simp(m.tb.Quo(x.num, m.tb.Int(x.den)))
	case *FApx:
		return m.apxToInt(x, in)
	case *FTab:
		vals := make([]int64, len(x.vals))
		for i, f := range x.vals {
			if math.IsNaN(f) || math.Abs(f) >= 9.2e18 {
				panic(unsupported("float to int out of range (table)"))
			}
			vals[i] = int64(f)
		}
		return m.simp(m.tb.Table(x.arg, x.lo, vals))
	}
	panic(engineError{fmt.Sprintf("floatToInt %T", x)})
}

func (m *Machine) iteFloat(g *Term, a, b value) value {
	if u, ok := a.(FUnknown); ok {
		return u
	}
	if u, ok := b.(FUnknown); ok {
		return u
	}
	if _, ok := a.(*FApx); ok {
		panic(mergeFail{"approximated float ite"})
	}
	if _, ok := b.(*FApx); ok {
		panic(mergeFail{"approximated float ite"})
	}
	if af, ok := a.(float64); ok {
		if bf, ok := b.(float64); ok {
			if af == bf {
				return af
			}
			return &FTab{arg: m.tb.Ite(g, m.tb.Int(1), m.tb.Int(0)), lo: 0, vals: []float64{bf, af}}
		}
	}
	// both rationals with the same denominator
	ar, aok := a.(*FRat)
	br, bok := b.(*FRat)
	if af, ok := a.(float64); ok {
		ar, aok = m.ratOfConst(af)
	}
	if bf, ok := b.(float64); ok {
		br, bok = m.ratOfConst(bf)
	}
	if aok && bok {
		d := ar.den
		if br.den > d {
			d = br.den
		}
		x := m.tb.MulC(ar.num, d/ar.den)
		y := m.tb.MulC(br.num, d/br.den)
		if exactNum(x) && exactNum(y) {
			return m.normRat(m.tb.Ite(g, x, y), d)
		}
	}
	panic(mergeFail{"float ite"})
}

// mathFn implements math.Floor/Ceil/Round/Abs/Trunc/Mod on float values.
func (m *Machine) mathFn(name string, args []value, site ssa.Instruction) value {
	f1 := map[string]func(float64) float64{
		"Floor": math.Floor, "Ceil": math.Ceil, "Round": math.Round, "Abs": math.Abs, "Trunc": math.Trunc,
		"Sin": math.Sin, "Cos": math.Cos, "Sqrt": math.Sqrt, "Tan": math.Tan, "Atan": math.Atan,
	}
	if f, ok := f1[name]; ok {
		switch x := args[0].(type) {
		case FUnknown:
			return x
		case float64:
			return f(x)
		case *FTab:
			return m.tabMap(x, f)
		case *FApx:
			return m.apxMath(name, x, site)
		case *FRat:
			tb := m.tb
			d := tb.Int(x.den)
			q := tb.Quo(x.num, d)
			r := tb.Rem(x.num, d)
			switch name {
			case "Floor":
				return m.normRat(tb.Sub(q, tb.Ite(tb.Lt(r, tb.Int(0)), tb.Int(1), tb.Int(0))), 1)
			case "Ceil":
				return m.normRat(tb.Add(q, tb.Ite(tb.Lt(tb.Int(0), r), tb.Int(1), tb.Int(0))), 1)
			case "Trunc":
				return m.normRat(q, 1)
			case "Abs":
				return m.normRat(tb.Ite(tb.Lt(x.num, tb.Int(0)), tb.Neg(x.num), x.num), x.den)
			case "Round": // half away from zero
				n2 := tb.MulC(x.num, 2)
				d2 := tb.Int(2 * x.den)
				pos := tb.Quo(tb.Add(n2, d), d2)
				neg := tb.Neg(tb.Quo(tb.Add(tb.Neg(n2), d), d2))
				return m.normRat(tb.Ite(tb.Le(tb.Int(0), x.num), pos, neg), 1)
			}
			if t, ok := m.toTab(x); ok {
				return m.tabMap(t, f)
			}
		}
		panic(unsupported("math." + name + " on " + fdesc(args[0])))
	}
	switch name {
	case "Mod", "Pow", "Atan2", "Max", "Min":
		x, xok := args[0].(float64)
		y, yok := args[1].(float64)
		if xok && yok {
			switch name {
			case "Mod":
				return math.Mod(x, y)
			case "Pow":
				return math.Pow(x, y)
			case "Atan2":
				return math.Atan2(x, y)
			case "Max":
				return math.Max(x, y)
			case "Min":
				return math.Min(x, y)
			}
		}
		if t, ok := m.toTab(args[0]); ok && yok && name == "Mod" {
			return m.tabMap(t, func(a float64) float64 { return math.Mod(a, y) })
		}
	}
	panic(unsupported("math." + name + " on symbolic operands"))
}
