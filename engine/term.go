package main

// Term DAG: hash-consed, constant-folding Int/Bool terms with interval
// analysis.  Go `int` is encoded as SMT Int; every arithmetic result whose
// interval cannot be shown to stay inside int64 raises an overflow
// obligation (see Machine.checkOverflow).

import (
	"fmt"
	"sort"
	"strings"
)

type Sort uint8

const (
	SInt Sort = iota
	SBool
)

type Op uint8

const (
	OpConst Op = iota // Int const (k) or Bool const (k!=0)
	OpVar             // name
	OpAdd             // sum args + k
	OpMul             // k * args[0]   (constant multiple)
	OpMulNL           // args[0]*args[1]  (non-linear, rare)
	OpQuo             // Go truncated division args[0]/args[1]
	OpRem             // Go remainder
	OpIte             // cond, a, b (Int or Bool)
	OpEq              // Int = Int
	OpLe              // Int <= Int
	OpLt              // Int < Int
	OpAnd
	OpOr
	OpNot
	OpTable // args[0] index term, vals table starting at k (lo); out of range => dflt (last val)
)

const inf = int64(1) << 62

type Term struct {
	op   Op
	sort Sort
	args []*Term
	k    int64
	name string
	vals []int64 // OpTable
	lo   int64   // interval for Int terms (saturated at ±inf)
	hi   int64
	id   int
	size int // DAG-ish size estimate
}

func (t *Term) IsConst() bool { return t.op == OpConst }
func (t *Term) String() string {
	return t.pretty(0)
}

func (t *Term) pretty(depth int) string {
	if depth > 6 {
		return fmt.Sprintf("t%d", t.id)
	}
	switch t.op {
	case OpConst:
		if t.sort == SBool {
			if t.k != 0 {
				return "true"
			}
			return "false"
		}
		return fmt.Sprint(t.k)
	case OpVar:
		return t.name
	}
	names := map[Op]string{OpAdd: "+", OpMul: "*", OpMulNL: "*", OpQuo: "quo", OpRem: "rem", OpIte: "ite", OpEq: "=", OpLe: "<=", OpLt: "<", OpAnd: "and", OpOr: "or", OpNot: "not", OpTable: "table"}
	var sb strings.Builder
	sb.WriteString("(" + names[t.op])
	if t.op == OpMul || (t.op == OpAdd && t.k != 0) {
		fmt.Fprintf(&sb, " %d", t.k)
	}
	for _, a := range t.args {
		sb.WriteString(" " + a.pretty(depth+1))
	}
	if t.op == OpTable {
		fmt.Fprintf(&sb, " @%d %v", t.k, t.vals)
	}
	sb.WriteString(")")
	return sb.String()
}

// TermBank owns hash-consing.
type TermBank struct {
	tab   map[string]*Term
	next  int
	True  *Term
	False *Term
	vars  map[string]*Term
}

func NewTermBank() *TermBank {
	b := &TermBank{tab: map[string]*Term{}, vars: map[string]*Term{}}
	b.True = b.mk(&Term{op: OpConst, sort: SBool, k: 1})
	b.False = b.mk(&Term{op: OpConst, sort: SBool, k: 0})
	return b
}

func (b *TermBank) key(t *Term) string {
	var sb strings.Builder
	fmt.Fprintf(&sb, "%d:%d:%d:%s", t.op, t.sort, t.k, t.name)
	for _, a := range t.args {
		fmt.Fprintf(&sb, ",%d", a.id)
	}
	if t.op == OpTable {
		fmt.Fprintf(&sb, "%v", t.vals)
	}
	return sb.String()
}

func (b *TermBank) mk(t *Term) *Term {
	k := b.key(t)
	if o, ok := b.tab[k]; ok {
		return o
	}
	b.next++
	t.id = b.next
	t.size = 1
	for _, a := range t.args {
		t.size += a.size
		if t.size > 1<<30 {
			t.size = 1 << 30
		}
	}
	b.tab[k] = t
	return t
}

func satAdd(a, c int64) int64 {
	if a >= inf || c >= inf {
		if a <= -inf || c <= -inf {
			panic("satAdd inf-inf")
		}
		return inf
	}
	if a <= -inf || c <= -inf {
		return -inf
	}
	r := a + c
	if r >= inf {
		return inf
	}
	if r <= -inf {
		return -inf
	}
	return r
}

func satMul(a, c int64) int64 {
	if a == 0 || c == 0 {
		return 0
	}
	neg := (a < 0) != (c < 0)
	ua, uc := a, c
	if ua < 0 {
		ua = -ua
	}
	if uc < 0 {
		uc = -uc
	}
	if ua >= inf || uc >= inf || ua > inf/uc {
		if neg {
			return -inf
		}
		return inf
	}
	r := ua * uc
	if neg {
		return -r
	}
	return r
}

func min64(a ...int64) int64 {
	m := a[0]
	for _, x := range a[1:] {
		if x < m {
			m = x
		}
	}
	return m
}
func max64(a ...int64) int64 {
	m := a[0]
	for _, x := range a[1:] {
		if x > m {
			m = x
		}
	}
	return m
}

func (b *TermBank) Int(k int64) *Term {
	if k >= inf || k <= -inf {
		panic(unsupported("integer constant too large for the Int encoding"))
	}
	return b.mk(&Term{op: OpConst, sort: SInt, k: k, lo: k, hi: k})
}

func (b *TermBank) Bool(v bool) *Term {
	if v {
		return b.True
	}
	return b.False
}

func (b *TermBank) Var(name string, sort Sort, lo, hi int64) *Term {
	if v, ok := b.vars[name]; ok {
		return v
	}
	t := b.mk(&Term{op: OpVar, sort: sort, name: name, lo: lo, hi: hi})
	b.vars[name] = t
	return t
}

// linear decomposition helper: t = sum coeff_i * atom_i + k
type lin struct {
	coef map[*Term]int64
	k    int64
}

func (b *TermBank) linOf(t *Term, mult int64, acc *lin) {
	switch t.op {
	case OpConst:
		acc.k += mult * t.k
	case OpAdd:
		acc.k += mult * t.k
		for _, a := range t.args {
			b.linOf(a, mult, acc)
		}
	case OpMul:
		b.linOf(t.args[0], mult*t.k, acc)
	default:
		acc.coef[t] += mult
	}
}

func (b *TermBank) fromLin(l *lin) *Term {
	type ent struct {
		t *Term
		c int64
	}
	var es []ent
	for t, c := range l.coef {
		if c != 0 {
			es = append(es, ent{t, c})
		}
	}
	if len(es) == 0 {
		return b.Int(l.k)
	}
	sort.Slice(es, func(i, j int) bool { return es[i].t.id < es[j].t.id })
	args := make([]*Term, len(es))
	lo, hi := l.k, l.k
	for i, e := range es {
		a := e.t
		if e.c != 1 {
			x, y := satMul(a.lo, e.c), satMul(a.hi, e.c)
			a = b.mk(&Term{op: OpMul, sort: SInt, k: e.c, args: []*Term{e.t}, lo: min64(x, y), hi: max64(x, y)})
		}
		args[i] = a
		lo = satAdd(lo, a.lo)
		hi = satAdd(hi, a.hi)
	}
	if len(args) == 1 && l.k == 0 {
		return args[0]
	}
	return b.mk(&Term{op: OpAdd, sort: SInt, k: l.k, args: args, lo: lo, hi: hi})
}

func (b *TermBank) Add(x, y *Term) *Term {
	l := &lin{coef: map[*Term]int64{}}
	b.linOf(x, 1, l)
	b.linOf(y, 1, l)
	return b.fromLin(l)
}

func (b *TermBank) Sub(x, y *Term) *Term {
	l := &lin{coef: map[*Term]int64{}}
	b.linOf(x, 1, l)
	b.linOf(y, -1, l)
	return b.fromLin(l)
}

func (b *TermBank) Neg(x *Term) *Term { return b.Sub(b.Int(0), x) }

func (b *TermBank) MulC(x *Term, c int64) *Term {
	l := &lin{coef: map[*Term]int64{}}
	b.linOf(x, c, l)
	return b.fromLin(l)
}

func (b *TermBank) Mul(x, y *Term) *Term {
	if x.IsConst() {
		return b.MulC(y, x.k)
	}
	if y.IsConst() {
		return b.MulC(x, y.k)
	}
	// distribute over ite with constant branches? keep non-linear
	if x.id > y.id {
		x, y = y, x
	}
	c := []int64{satMul(x.lo, y.lo), satMul(x.lo, y.hi), satMul(x.hi, y.lo), satMul(x.hi, y.hi)}
	return b.mk(&Term{op: OpMulNL, sort: SInt, args: []*Term{x, y}, lo: min64(c...), hi: max64(c...)})
}

func goQuo(a, c int64) int64 { return a / c }
func goRem(a, c int64) int64 { return a % c }

// Quo: Go truncated division; caller guarantees divisor non-zero on this path.
func (b *TermBank) Quo(x, y *Term) *Term {
	if y.IsConst() && y.k == 1 {
		return x
	}
	if x.IsConst() && y.IsConst() {
		return b.Int(goQuo(x.k, y.k))
	}
	if y.IsConst() && y.k > 1 && x.lo >= 0 && (x.op == OpAdd || x.op == OpMul) {
		// (k*X + c) / k = X + c/k for non-negative dividend, 0 <= c
		l := &lin{coef: map[*Term]int64{}}
		b.linOf(x, 1, l)
		all := l.k >= 0
		for _, c := range l.coef {
			if c%y.k != 0 {
				all = false
				break
			}
		}
		if all && len(l.coef) > 0 {
			for a := range l.coef {
				l.coef[a] /= y.k
			}
			l.k /= y.k
			return b.fromLin(l)
		}
	}
	if y.IsConst() && y.k > 1 && x.lo >= 0 && x.op == OpAdd {
		// (k*A + B) / k = A when 0 <= B < k on every model (B: the part whose coefficients k does not divide)
		l := &lin{coef: map[*Term]int64{}}
		b.linOf(x, 1, l)
		la := &lin{coef: map[*Term]int64{}}
		lb := &lin{coef: map[*Term]int64{}}
		for a, c := range l.coef {
			if c%y.k == 0 {
				la.coef[a] = c / y.k
			} else {
				lb.coef[a] = c
			}
		}
		la.k = l.k / y.k
		lb.k = l.k % y.k
		if lb.k < 0 {
			lb.k += y.k
			la.k--
		}
		if len(la.coef) > 0 && len(lb.coef) > 0 {
			B := b.fromLin(lb)
			if B.lo >= 0 && B.hi < y.k {
				return b.fromLin(la)
			}
		}
	}
	lo, hi := -inf, inf
	if y.IsConst() && y.k > 0 && x.lo > -inf && x.hi < inf {
		lo, hi = x.lo/y.k, x.hi/y.k
		if lo == hi {
			return b.Int(lo)
		}
	} else if x.lo > -inf && x.hi < inf {
		m := max64(-x.lo, x.hi, x.lo, -x.hi)
		lo, hi = -m, m
	}
	return b.mk(&Term{op: OpQuo, sort: SInt, args: []*Term{x, y}, lo: lo, hi: hi})
}

func (b *TermBank) Rem(x, y *Term) *Term {
	if x.IsConst() && y.IsConst() {
		return b.Int(goRem(x.k, y.k))
	}
	lo, hi := -inf, inf
	if y.IsConst() && y.k > 0 {
		if x.lo >= 0 && x.hi < y.k {
			return x
		}
		// same quotient across the interval => x - q*k
		if x.lo > -inf && x.hi < inf && x.lo/y.k == x.hi/y.k && (x.lo >= 0 || x.hi <= 0) {
			return b.Sub(x, b.Int(x.lo/y.k*y.k))
		}
		lo, hi = -(y.k - 1), y.k-1
		if x.lo >= 0 {
			lo = 0
		}
		if x.hi <= 0 {
			hi = 0
		}
	} else if y.lo > -inf && y.hi < inf {
		m := max64(-y.lo, y.hi, y.lo, -y.hi) - 1
		lo, hi = -m, m
		if x.lo >= 0 {
			lo = 0
		}
		if x.hi <= 0 {
			hi = 0
		}
	}
	return b.mk(&Term{op: OpRem, sort: SInt, args: []*Term{x, y}, lo: lo, hi: hi})
}

func (b *TermBank) Not(x *Term) *Term {
	switch x.op {
	case OpConst:
		return b.Bool(x.k == 0)
	case OpNot:
		return x.args[0]
	case OpLe: // !(a<=b) = b<a
		return b.Lt(x.args[1], x.args[0])
	case OpLt:
		return b.Le(x.args[1], x.args[0])
	}
	return b.mk(&Term{op: OpNot, sort: SBool, args: []*Term{x}})
}

func (b *TermBank) And(xs ...*Term) *Term {
	var args []*Term
	seen := map[*Term]bool{}
	for _, x := range xs {
		if x.op == OpConst {
			if x.k == 0 {
				return b.False
			}
			continue
		}
		sub := []*Term{x}
		if x.op == OpAnd {
			sub = x.args
		}
		for _, s := range sub {
			if !seen[s] {
				seen[s] = true
				args = append(args, s)
			}
		}
	}
	for _, a := range args {
		if seen[b.Not(a)] {
			return b.False
		}
	}
	if len(args) == 0 {
		return b.True
	}
	if len(args) == 1 {
		return args[0]
	}
	sort.Slice(args, func(i, j int) bool { return args[i].id < args[j].id })
	return b.mk(&Term{op: OpAnd, sort: SBool, args: args})
}

func (b *TermBank) Or(xs ...*Term) *Term {
	var args []*Term
	seen := map[*Term]bool{}
	for _, x := range xs {
		if x.op == OpConst {
			if x.k != 0 {
				return b.True
			}
			continue
		}
		sub := []*Term{x}
		if x.op == OpOr {
			sub = x.args
		}
		for _, s := range sub {
			if !seen[s] {
				seen[s] = true
				args = append(args, s)
			}
		}
	}
	for _, a := range args {
		if seen[b.Not(a)] {
			return b.True
		}
	}
	if len(args) == 0 {
		return b.False
	}
	if len(args) == 1 {
		return args[0]
	}
	sort.Slice(args, func(i, j int) bool { return args[i].id < args[j].id })
	return b.mk(&Term{op: OpOr, sort: SBool, args: args})
}

func (b *TermBank) Implies(x, y *Term) *Term { return b.Or(b.Not(x), y) }

// comparison on d = x - y normalised
func (b *TermBank) Le(x, y *Term) *Term {
	if x.hi <= y.lo {
		return b.True
	}
	if x.lo > y.hi {
		return b.False
	}
	d := b.Sub(x, y)
	if d.hi <= 0 {
		return b.True
	}
	if d.lo > 0 {
		return b.False
	}
	x, y = b.splitCmp(d)
	return b.mk(&Term{op: OpLe, sort: SBool, args: []*Term{x, y}})
}

func (b *TermBank) Lt(x, y *Term) *Term {
	if x.hi < y.lo {
		return b.True
	}
	if x.lo >= y.hi {
		return b.False
	}
	d := b.Sub(x, y)
	if d.hi < 0 {
		return b.True
	}
	if d.lo >= 0 {
		return b.False
	}
	x, y = b.splitCmp(d)
	return b.mk(&Term{op: OpLt, sort: SBool, args: []*Term{x, y}})
}

// splitCmp rewrites d (cmp 0) as lhs (cmp) rhs with the constant on the right.
func (b *TermBank) splitCmp(d *Term) (*Term, *Term) {
	if d.op == OpAdd && d.k != 0 {
		l := &lin{coef: map[*Term]int64{}}
		b.linOf(d, 1, l)
		k := l.k
		l.k = 0
		return b.fromLin(l), b.Int(-k)
	}
	return d, b.Int(0)
}

func (b *TermBank) Eq(x, y *Term) *Term {
	if x == y {
		return b.True
	}
	if x.sort == SBool {
		return b.Or(b.And(x, y), b.And(b.Not(x), b.Not(y)))
	}
	if x.hi < y.lo || x.lo > y.hi {
		return b.False
	}
	if x.IsConst() && y.IsConst() {
		return b.Bool(x.k == y.k)
	}
	d := b.Sub(x, y)
	if d.IsConst() {
		return b.Bool(d.k == 0)
	}
	if d.lo > 0 || d.hi < 0 {
		return b.False
	}
	// ite with constant arms compared to a constant: push inside
	if y.IsConst() && x.op == OpIte && (x.args[1].IsConst() || x.args[2].IsConst()) {
		return b.Ite(x.args[0], b.Eq(x.args[1], y), b.Eq(x.args[2], y))
	}
	if x.IsConst() && y.op == OpIte && (y.args[1].IsConst() || y.args[2].IsConst()) {
		return b.Ite(y.args[0], b.Eq(y.args[1], x), b.Eq(y.args[2], x))
	}
	x, y = b.splitCmp(d)
	return b.mk(&Term{op: OpEq, sort: SBool, args: []*Term{x, y}})
}

func (b *TermBank) Ite(c, x, y *Term) *Term {
	if c.op == OpConst {
		if c.k != 0 {
			return x
		}
		return y
	}
	if x == y {
		return x
	}
	if x.sort == SBool {
		if x.op == OpConst && y.op == OpConst {
			if x.k != 0 {
				return c
			}
			return b.Not(c)
		}
		if x.op == OpConst {
			if x.k != 0 {
				return b.Or(c, y)
			}
			return b.And(b.Not(c), y)
		}
		if y.op == OpConst {
			if y.k != 0 {
				return b.Or(b.Not(c), x)
			}
			return b.And(c, x)
		}
		return b.mk(&Term{op: OpIte, sort: SBool, args: []*Term{c, x, y}})
	}
	if c.op == OpNot {
		return b.Ite(c.args[0], y, x)
	}
	return b.mk(&Term{op: OpIte, sort: SInt, args: []*Term{c, x, y}, lo: min64(x.lo, y.lo), hi: max64(x.hi, y.hi)})
}

// Table: vals[idx-lo]; idx outside [lo, lo+len) is excluded by the caller's
// bounds check (the term evaluates to vals[last] there, irrelevant).
func (b *TermBank) Table(idx *Term, lo int64, vals []int64) *Term {
	if idx.IsConst() {
		i := idx.k - lo
		if i < 0 || i >= int64(len(vals)) {
			panic("table const index out of range")
		}
		return b.Int(vals[i])
	}
	// restrict to idx interval
	s, e := int64(0), int64(len(vals))
	if idx.lo > lo {
		s = idx.lo - lo
	}
	if idx.hi < lo+int64(len(vals))-1 {
		e = idx.hi - lo + 1
	}
	if s >= e {
		return b.Int(vals[0])
	}
	vals = vals[s:e]
	lo += s
	same := true
	for _, v := range vals {
		if v != vals[0] {
			same = false
			break
		}
	}
	if same {
		return b.Int(vals[0])
	}
	// affine?
	if len(vals) >= 2 {
		d := vals[1] - vals[0]
		aff := true
		for i := 2; i < len(vals); i++ {
			if vals[i]-vals[i-1] != d {
				aff = false
				break
			}
		}
		if aff {
			return b.Add(b.MulC(b.Sub(idx, b.Int(lo)), d), b.Int(vals[0]))
		}
	}
	cp := append([]int64(nil), vals...)
	return b.mk(&Term{op: OpTable, sort: SInt, args: []*Term{idx}, k: lo, vals: cp, lo: min64(cp...), hi: max64(cp...)})
}

// ---------- evaluation under a model ----------

type Model map[string]int64 // bools as 0/1

func (t *Term) Eval(m Model, memo map[*Term]int64) (int64, bool) {
	if v, ok := memo[t]; ok {
		return v, true
	}
	var r int64
	ev := func(a *Term) (int64, bool) { return a.Eval(m, memo) }
	switch t.op {
	case OpConst:
		r = t.k
	case OpVar:
		v, ok := m[t.name]
		if !ok {
			return 0, false
		}
		r = v
	case OpAdd:
		r = t.k
		for _, a := range t.args {
			v, ok := ev(a)
			if !ok {
				return 0, false
			}
			r += v
		}
	case OpMul:
		v, ok := ev(t.args[0])
		if !ok {
			return 0, false
		}
		r = t.k * v
	case OpMulNL, OpQuo, OpRem, OpEq, OpLe, OpLt:
		x, ok := ev(t.args[0])
		if !ok {
			return 0, false
		}
		y, ok := ev(t.args[1])
		if !ok {
			return 0, false
		}
		switch t.op {
		case OpMulNL:
			r = x * y
		case OpQuo:
			if y == 0 {
				return 0, false
			}
			r = x / y
		case OpRem:
			if y == 0 {
				return 0, false
			}
			r = x % y
		case OpEq:
			r = b2i(x == y)
		case OpLe:
			r = b2i(x <= y)
		case OpLt:
			r = b2i(x < y)
		}
	case OpIte:
		c, ok := ev(t.args[0])
		if !ok {
			return 0, false
		}
		if c != 0 {
			return ev(t.args[1])
		}
		return ev(t.args[2])
	case OpAnd:
		r = 1
		for _, a := range t.args {
			v, ok := ev(a)
			if !ok {
				return 0, false
			}
			if v == 0 {
				r = 0
				break
			}
		}
	case OpOr:
		r = 0
		for _, a := range t.args {
			v, ok := ev(a)
			if !ok {
				return 0, false
			}
			if v != 0 {
				r = 1
				break
			}
		}
	case OpNot:
		v, ok := ev(t.args[0])
		if !ok {
			return 0, false
		}
		r = 1 - v
	case OpTable:
		v, ok := ev(t.args[0])
		if !ok {
			return 0, false
		}
		i := v - t.k
		if i < 0 || i >= int64(len(t.vals)) {
			return 0, false
		}
		r = t.vals[i]
	}
	memo[t] = r
	return r, true
}

func b2i(b bool) int64 {
	if b {
		return 1
	}
	return 0
}

// ---------- SMT-LIB printing ----------

func smtInt(k int64) string {
	if k < 0 {
		return fmt.Sprintf("(- %d)", -k)
	}
	return fmt.Sprint(k)
}

// ref returns the SMT name of a term (leaf literal or defined name).
func smtRef(t *Term) string {
	switch t.op {
	case OpConst:
		if t.sort == SBool {
			if t.k != 0 {
				return "true"
			}
			return "false"
		}
		return smtInt(t.k)
	case OpVar:
		return t.name
	}
	return fmt.Sprintf("t%d", t.id)
}

// smtBody prints the defining expression of a non-leaf term over refs.
func smtBody(t *Term) string {
	r := smtRef
	switch t.op {
	case OpAdd:
		var sb strings.Builder
		sb.WriteString("(+")
		for _, a := range t.args {
			sb.WriteString(" " + r(a))
		}
		if t.k != 0 {
			sb.WriteString(" " + smtInt(t.k))
		}
		sb.WriteString(")")
		return sb.String()
	case OpMul:
		return fmt.Sprintf("(* %s %s)", smtInt(t.k), r(t.args[0]))
	case OpMulNL:
		return fmt.Sprintf("(* %s %s)", r(t.args[0]), r(t.args[1]))
	case OpQuo:
		x, y := t.args[0], t.args[1]
		if y.lo > 0 && x.lo >= 0 {
			return fmt.Sprintf("(div %s %s)", r(x), r(y))
		}
		// truncated: sign(x)*sign(y) * (|x| div |y|)
		ax := fmt.Sprintf("(abs %s)", r(x))
		ay := fmt.Sprintf("(abs %s)", r(y))
		q := fmt.Sprintf("(div %s %s)", ax, ay)
		return fmt.Sprintf("(ite (= (>= %s 0) (>= %s 0)) %s (- %s))", r(x), r(y), q, q)
	case OpRem:
		x, y := t.args[0], t.args[1]
		if y.lo > 0 && x.lo >= 0 {
			return fmt.Sprintf("(mod %s %s)", r(x), r(y))
		}
		m := fmt.Sprintf("(mod (abs %s) (abs %s))", r(x), r(y))
		return fmt.Sprintf("(ite (>= %s 0) %s (- %s))", r(x), m, m)
	case OpIte:
		return fmt.Sprintf("(ite %s %s %s)", r(t.args[0]), r(t.args[1]), r(t.args[2]))
	case OpEq:
		return fmt.Sprintf("(= %s %s)", r(t.args[0]), r(t.args[1]))
	case OpLe:
		return fmt.Sprintf("(<= %s %s)", r(t.args[0]), r(t.args[1]))
	case OpLt:
		return fmt.Sprintf("(< %s %s)", r(t.args[0]), r(t.args[1]))
	case OpAnd, OpOr:
		var sb strings.Builder
		if t.op == OpAnd {
			sb.WriteString("(and")
		} else {
			sb.WriteString("(or")
		}
		for _, a := range t.args {
			sb.WriteString(" " + r(a))
		}
		sb.WriteString(")")
		return sb.String()
	case OpNot:
		return fmt.Sprintf("(not %s)", r(t.args[0]))
	case OpTable:
		// nested ite chain
		var sb strings.Builder
		n := len(t.vals)
		for i := 0; i < n-1; i++ {
			fmt.Fprintf(&sb, "(ite (= %s %s) %s ", r(t.args[0]), smtInt(t.k+int64(i)), smtInt(t.vals[i]))
		}
		sb.WriteString(smtInt(t.vals[n-1]))
		sb.WriteString(strings.Repeat(")", n-1))
		return sb.String()
	}
	panic("smtBody: leaf")
}

func sortName(s Sort) string {
	if s == SBool {
		return "Bool"
	}
	return "Int"
}

type unsupported string

func (u unsupported) Error() string { return string(u) }
