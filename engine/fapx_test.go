package main

import (
	"math"
	"math/big"
	"math/rand"
	"testing"
)

// the approximated-float layer: on random inputs the IEEE result of the library's inexact expressions lies inside
// the bound carried by the FApx value, is >= its exact lower bound, and a single-rounded quotient truncates to an
// integer strictly within one of the exact quotient
func TestApproxFloatLayer(t *testing.T) {
	m := newTestMachine()
	m.apxFloats = true
	tb := m.tb
	h, mi, s := tb.Var("h", SInt, 0, 23), tb.Var("mi", SInt, 0, 59), tb.Var("s", SInt, 0, 59)
	day := tb.Var("day", SInt, 1, 31)
	J := tb.Var("J", SInt, 1721424, 5373484)
	K := tb.Var("K", SInt, 0, 500)
	f := func(op string, x, y value) value {
		switch op {
		case "+":
			return m.floatBinop(tokADD, x, y, nil)
		case "-":
			return m.floatBinop(tokSUB, x, y, nil)
		case "*":
			return m.floatBinop(tokMUL, x, y, nil)
		}
		return m.floatBinop(tokQUO, x, y, nil)
	}
	fi := m.floatFromInt
	frac := f("/", f("+", f("/", f("+", f("/", fi(s), 60.0), fi(mi)), 60.0), fi(h)), 24.0)
	d := f("+", fi(day), frac)
	jd := f("-", f("+", fi(J), d), 1524.5)
	q := f("/", f("-", fi(J), 1867216.25), 36524.25)
	yq := f("/", f("-", fi(J), 122.1), 365.25)
	mq := f("/", fi(K), 30.601)
	t24 := f("*", f("-", f("+", jd, 0.5), fi(J)), 24.0)
	exprs := map[string]value{"frac": frac, "d": d, "jd": jd, "q": q, "yq": yq, "mq": mq, "t24": t24}
	native := func(hv, miv, sv, dv, jv, kv int64) map[string]float64 {
		fr := ((float64(sv)/60+float64(miv))/60 + float64(hv)) / 24
		dd := float64(dv) + fr
		j := float64(jv) + dd - 1524.5
		return map[string]float64{"frac": fr, "d": dd, "jd": j, "q": (float64(jv) - 1867216.25) / 36524.25, "yq": (float64(jv) - 122.1) / 365.25,
			"mq": float64(kv) / 30.601, "t24": (j + 0.5 - float64(jv)) * 24}
	}
	rnd := rand.New(rand.NewSource(5))
	unit := new(big.Rat).SetFrac(big.NewInt(1), new(big.Int).Lsh(big.NewInt(1), apxShift))
	for i := 0; i < 20000; i++ {
		hv, miv, sv, dv := int64(rnd.Intn(24)), int64(rnd.Intn(60)), int64(rnd.Intn(60)), int64(rnd.Intn(31)+1)
		jv, kv := int64(1721424+rnd.Intn(5373484-1721424)), int64(rnd.Intn(501))
		switch i % 7 { // boundary-heavy inputs
		case 0:
			hv, miv, sv = 0, 0, 0
		case 1:
			sv = 0
			miv = 0
		case 2:
			jv = 1867216 + 36524*int64(rnd.Intn(90)+1) + int64(rnd.Intn(3)) // near exact multiples of 36524.25
		}
		md := Model{"h": hv, "mi": miv, "s": sv, "day": dv, "J": jv, "K": kv}
		nat := native(hv, miv, sv, dv, jv, kv)
		for name, e := range exprs {
			a, ok := e.(*FApx)
			if !ok {
				t.Fatalf("%s is %T, expected an approximated float", name, e)
			}
			nv, _ := a.num.Eval(md, map[*Term]int64{})
			ev, _ := a.err.Eval(md, map[*Term]int64{})
			exact := new(big.Rat).SetFrac(big.NewInt(nv), big.NewInt(a.den))
			got := new(big.Rat).SetFloat64(nat[name])
			diff := new(big.Rat).Sub(got, exact)
			diff.Abs(diff)
			bound := new(big.Rat).Mul(big.NewRat(ev, 1), unit)
			if diff.Cmp(bound) > 0 {
				t.Fatalf("%s: IEEE value %v outside the bound: exact %s err %d units, diff %s (inputs %v)", name, nat[name], exact.FloatString(15), ev, diff.FloatString(18), md)
			}
			if a.lb != nil {
				lv, _ := a.lb.Eval(md, map[*Term]int64{})
				if nat[name] < float64(lv) {
					t.Fatalf("%s: IEEE value %v below the exact lower bound %d (inputs %v)", name, nat[name], lv, md)
				}
			}
			if a.single {
				r := new(big.Rat).SetInt64(int64(nat[name]))
				dd := new(big.Rat).Sub(r, exact)
				dd.Abs(dd)
				if dd.Cmp(big.NewRat(1, 1)) >= 0 {
					t.Fatalf("%s: single-rounding rule violated: trunc(%v) vs exact %s", name, nat[name], exact.FloatString(15))
				}
			}
		}
		if sv == 0 && miv == 0 && hv == 0 {
			a := exprs["d"].(*FApx)
			lv, _ := a.lb.Eval(md, map[*Term]int64{})
			if lv != dv || math.Floor(nat["d"]) != float64(dv) {
				t.Fatalf("exact day not preserved: lb %d day %d", lv, dv)
			}
		}
	}
	if !exprs["q"].(*FApx).single || exprs["yq"].(*FApx).single {
		t.Fatalf("single flags: q %v yq %v", exprs["q"].(*FApx).single, exprs["yq"].(*FApx).single)
	}
}
