package main

// symgo scan: native scan of all years 1..9998 through the library's public API; reports, per structural
// feature, the years that show it.  Used only to CHOOSE which years the per-year harnesses decide (the years
// themselves are then decided symbolically); the features are the places where the per-year code changes shape.

import (
	"encoding/json"
	"flag"
	"fmt"
	"math"
	"os"
	"sort"

	"github.com/6tail/lunar-go/LunarUtil"
	"github.com/6tail/lunar-go/calendar"
)

func cmdScan(args []string) {
	fs := flag.NewFlagSet("scan", flag.ExitOnError)
	out := fs.String("out", "", "output json")
	fs.Parse(args)
	feat := map[string][]int{}
	add := func(f string, y int) { feat[f] = append(feat[f], y) }
	jz := func(s *calendar.Solar) int { return LunarUtil.GetJiaZiIndex(s.GetLunar().GetDayInGanZhi()) }
	func() {
		for y := 2; y <= 9997; y++ {
			func() {
				defer func() {
					if r := recover(); r != nil {
						add("panic", y)
					}
				}()
				l := calendar.NewSolarFromYmd(y, 6, 15).GetLunar()
				t := l.GetJieQiTable()
				xz, dz, dz2, lc, lq := t["夏至"], t["冬至"], t["DONG_ZHI"], t["立春"], t["立秋"]
				for name, s := range map[string]*calendar.Solar{"xiazhi": xz, "dongzhi": dz2} {
					if k := jz(s); k >= 28 && k <= 31 {
						add(fmt.Sprintf("%s-day-jiazi-index-%d", name, k), y)
					}
					if s.GetHour() == 23 {
						add(name+"-at-23h", y)
					}
				}
				near := func(s *calendar.Solar) int {
					k := jz(s)
					j := int(s.GetJulianDay() + 0.5)
					if k > 29 {
						return j + 60 - k
					}
					return j - k
				}
				pl := calendar.NewSolarFromYmd(y-1, 6, 15).GetLunar().GetJieQiTable()["夏至"]
				if d := near(dz) - near(pl); d != 180 {
					add(fmt.Sprintf("winter-anchor-minus-prev-summer-anchor-%d", d), y)
				}
				ny := calendar.NewLunarFromYmd(y, 1, 1).GetSolar()
				if lc.IsBefore(ny) {
					add("lichun-before-new-year", y)
					if (y-4)%60 == 0 {
						add("lichun-before-new-year-in-jiazi-year", y)
					}
				}
				if ny.GetYear() != y {
					add("new-year-outside-civil-year", y)
				}
				for i, k := range calendar.JIE_QI_IN_USE {
					s := t[k]
					if i%2 == 0 && s.GetYear() == y {
						if s.GetHour() == 23 {
							add("jie-at-23h", y)
							add(fmt.Sprintf("jie-at-23h-in-month-%d", s.GetMonth()), y)
						}
						if s.GetHour()%2 == 1 && s.GetMinute() > 0 {
							add("jie-in-odd-hour", y)
						}
					}
				}
				ly := calendar.NewLunarYear(y)
				// raw term instants whose seconds round up across a minute / hour / day boundary (carry chain of the
				// Julian-Day -> date-time conversion); computed from the raw Julian Days, not from the converted dates
				for _, jd := range ly.GetJieQiJulianDays() {
					x := jd + 0.5
					f := (x - math.Floor(x)) * 24
					hh := math.Floor(f)
					f = (f - hh) * 60
					mi := math.Floor(f)
					f = (f - mi) * 60
					if math.Round(f) > 59 {
						switch {
						case mi == 59 && hh == 23:
							add("term-instant-rounds-up-to-next-day", y)
						case mi == 59:
							add("term-instant-rounds-up-to-next-hour", y)
						default:
							add("term-instant-rounds-up-to-next-minute", y)
						}
					}
				}
				// solar terms within a minute of a civil-day boundary (the day a term is "named for" is sensitive there)
				for _, k := range calendar.JIE_QI_IN_USE {
					s := t[k]
					if s.GetYear() == y && ((s.GetHour() == 23 && s.GetMinute() == 59) || (s.GetHour() == 0 && s.GetMinute() == 0)) {
						add("term-within-a-minute-of-midnight", y)
					}
				}
				// length classes of the lunar year, and where its mid-terms fall inside their months
				add(fmt.Sprintf("lunar-year-of-%d-days", ly.GetDayCount()), y)
				for i, k := range calendar.JIE_QI_IN_USE {
					s := t[k]
					if i%2 == 1 && s.GetYear() == y {
						ld := calendar.NewSolarFromYmd(s.GetYear(), s.GetMonth(), s.GetDay()).GetLunar()
						if ld.GetDay() == 1 {
							add("mid-term-on-first-day-of-month", y)
						}
						if nx := ld.Next(1); nx.GetDay() == 1 {
							add("mid-term-on-last-day-of-month", y)
						}
					}
				}
				if d1 := calendar.NewLunarFromYmd(y, 1, 1).GetSolar(); d1.GetYear() == y {
					if md := d1.GetMonth()*100 + d1.GetDay(); md <= 121 {
						add("new-year-on-or-before-jan-21", y)
					} else if md >= 220 {
						add("new-year-on-or-after-feb-20", y)
					}
				}
				if m := ly.GetLeapMonth(); m > 0 {
					add(fmt.Sprintf("leap-month-%d", m), y)
				}
				for i := ly.GetMonths().Front(); i != nil; i = i.Next() {
					mm := i.Value.(*calendar.LunarMonth)
					if c := mm.GetDayCount(); c != 29 && c != 30 {
						add(fmt.Sprintf("month-of-%d-days", c), y)
					}
				}
				// dog days: stem of the summer-solstice day and whether Liqiu falls after the 5th geng day
				g := xz.GetLunar().GetDayGanIndex()
				a := 6 - g
				if a < 0 {
					a += 10
				}
				fifth := xz.NextDay(a + 40)
				rel := "liqiu-after-5th-geng"
				lqd := calendar.NewSolarFromYmd(lq.GetYear(), lq.GetMonth(), lq.GetDay())
				f5 := calendar.NewSolarFromYmd(fifth.GetYear(), fifth.GetMonth(), fifth.GetDay())
				if !lqd.IsAfter(f5) {
					rel = "liqiu-not-after-5th-geng"
				}
				if lqd.Subtract(f5) == 0 {
					rel = "liqiu-on-5th-geng"
				}
				add(fmt.Sprintf("fu-solstice-stem-%d-%s", g, rel), y)
			}()
		}
	}()
	type row struct {
		Feature string `json:"feature"`
		Count   int    `json:"count"`
		Years   []int  `json:"years"`
	}
	var rows []row
	for f, ys := range feat {
		sort.Ints(ys)
		// representatives: the first, the last, and up to three closest to 2000
		pick := map[int]bool{ys[0]: true, ys[len(ys)-1]: true}
		byDist := append([]int(nil), ys...)
		sort.Slice(byDist, func(i, j int) bool { return abs(byDist[i]-2000) < abs(byDist[j]-2000) })
		for i := 0; i < len(byDist) && i < 3; i++ {
			pick[byDist[i]] = true
		}
		var reps []int
		for y := range pick {
			reps = append(reps, y)
		}
		sort.Ints(reps)
		rows = append(rows, row{f, len(ys), reps})
	}
	sort.Slice(rows, func(i, j int) bool { return rows[i].Feature < rows[j].Feature })
	data, _ := json.MarshalIndent(rows, "", " ")
	if *out == "" {
		os.Stdout.Write(data)
	} else {
		os.WriteFile(*out, data, 0o644)
	}
}

func abs(a int) int {
	if a < 0 {
		return -a
	}
	return a
}
