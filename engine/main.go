package main

// symgo: bounded symbolic execution of lunar-go harnesses (go/ssa -> SMT-LIB2 -> z3).
//
//   symgo run -repo /repo -harness /verif/harness -units units.json -out out.json [-j 16]
//
// The harness files are overlaid onto the repository's packages; nothing is
// written to the repository.

import (
	"encoding/json"
	"flag"
	"fmt"
	"go/types"
	"math/rand"
	"os"
	"path/filepath"
	"sort"
	"strings"
	"sync"
	"time"

	"golang.org/x/tools/go/packages"
	"golang.org/x/tools/go/ssa"
	"golang.org/x/tools/go/ssa/ssautil"
)

type Unit struct {
	ID         string           `json:"id"`
	Harness    string           `json:"harness"` // pkgname.FuncName, e.g. calendar.VH_C04c
	Params     map[string]int64 `json:"params"`
	Concrete   map[string]int64 `json:"concrete,omitempty"` // fix inputs (translator validation / replay in executor)
	NoMerge    bool             `json:"no_merge,omitempty"`
	MergeLoops bool             `json:"merge_loops,omitempty"`
	MaxPaths   int              `json:"max_paths,omitempty"`
	TimeoutMs  int              `json:"timeout_ms,omitempty"`
	QTimeoutMs int              `json:"qtimeout_ms,omitempty"` // per-query solver time limit of this unit (default: -timeout)

	varRanges map[string][2]int64
	native    map[string]int
	events    []string
	lastPanic string
}

type UnitResult struct {
	ID          string              `json:"id"`
	Harness     string              `json:"harness"`
	Params      map[string]int64    `json:"params"`
	Paths       int                 `json:"paths"`
	Aborted     int                 `json:"aborted_paths"`
	Outcomes    map[string]int      `json:"outcomes"`
	Problems    []string            `json:"problems,omitempty"` // unsupported / engine errors / unknowns: NOT discharged
	Obligations []Obligation        `json:"obligations"`
	Counts      map[string]int      `json:"counts"`
	Reached     map[string]int      `json:"reached"`
	VarRanges   map[string][2]int64 `json:"var_ranges"`
	Funcs       []string            `json:"functions_encoded"`
	Native      map[string]int      `json:"native_calls"`
	FeasQ       int                 `json:"feasibility_queries"`
	AssertQ     int                 `json:"assertion_queries"`
	SolverQ     int                 `json:"solver_queries"`
	SolverS     float64             `json:"solver_time_s"`
	SolverErr   int                 `json:"solver_errors"`
	UnknownFeas int                 `json:"unknown_feasibility"`
	Merges      int                 `json:"merges"`
	MergeFails  int                 `json:"merge_fails"`
	NonTrivial  int                 `json:"nontrivial_assertions"`
	TrivialOK   int                 `json:"trivial_assertions"`
	Steps       int64               `json:"ssa_steps"`
	WallS       float64             `json:"wall_s"`
	Samples     []string            `json:"samples"`
	Concrete    map[string]int64    `json:"concrete,omitempty"`
	Trace       []string            `json:"trace,omitempty"`
}

type Loaded struct {
	prog   *ssa.Program
	pkgs   []*ssa.Package
	byName map[string]*ssa.Package
}

func load(repo, harnessDir string, extraOverlay map[string]string) (*Loaded, error) {
	overlay := map[string][]byte{}
	entries, _ := filepath.Glob(filepath.Join(harnessDir, "*", "zz_vh_*.go"))
	for _, f := range entries {
		if strings.HasSuffix(f, "_replay.go") || strings.HasSuffix(f, "_test.go") {
			continue
		}
		pkgDir := filepath.Base(filepath.Dir(f))
		data, err := os.ReadFile(f)
		if err != nil {
			return nil, err
		}
		overlay[filepath.Join(repo, pkgDir, filepath.Base(f))] = data
	}
	for k, v := range extraOverlay {
		data, err := os.ReadFile(v)
		if err != nil {
			return nil, err
		}
		overlay[k] = data
	}
	cfg := &packages.Config{
		Mode:    packages.LoadAllSyntax,
		Dir:     repo,
		Overlay: overlay,
		Env:     append(os.Environ(), "GOFLAGS=-mod=mod", "GOPROXY=off", "GOSUMDB=off", "GOTOOLCHAIN=local"),
	}
	initial, err := packages.Load(cfg, "./calendar", "./SolarUtil", "./LunarUtil", "./HolidayUtil", "./ShouXingUtil", "./FotoUtil", "./TaoUtil")
	if err != nil {
		return nil, err
	}
	if packages.PrintErrors(initial) > 0 {
		return nil, fmt.Errorf("package load errors")
	}
	prog, pkgs := ssautil.AllPackages(initial, ssa.InstantiateGenerics)
	prog.Build()
	l := &Loaded{prog: prog, byName: map[string]*ssa.Package{}}
	for _, p := range pkgs {
		if p != nil {
			l.pkgs = append(l.pkgs, p)
			l.byName[p.Pkg.Name()] = p
		}
	}
	return l, nil
}

func newMachine(l *Loaded, solverBin string, timeoutMs int) (*Machine, error) {
	sol, err := NewSolver(solverBin, timeoutMs)
	if err != nil {
		return nil, err
	}
	m := &Machine{
		prog: l.prog, tb: NewTermBank(), sol: sol,
		globals: map[*ssa.Global]*value{}, funcsSeen: map[*ssa.Function]bool{},
		pdom:     map[*ssa.Function]map[*ssa.BasicBlock]*ssa.BasicBlock{},
		maxSteps: 1 << 40, varSeq: map[string]int{}, now: time.Now(),
	}
	m.installExterns()
	m.unit = &Unit{varRanges: map[string][2]int64{}, native: map[string]int{}}
	m.ex = newExplorer(m)
	m.initPackages(l.pkgs)
	m.trail = nil
	return m, nil
}

func (m *Machine) runUnit(l *Loaded, u *Unit, sampleDir string, rng *rand.Rand) (res UnitResult) {
	t0 := time.Now()
	res = UnitResult{ID: u.ID, Harness: u.Harness, Params: u.Params, Outcomes: map[string]int{}, Counts: map[string]int{}, Concrete: u.Concrete}
	u.varRanges = map[string][2]int64{}
	u.native = map[string]int{}
	m.unit = u
	// fresh term bank per unit: variables are keyed by name and carry the unit's own input ranges
	m.tb = NewTermBank()
	m.ex = newExplorer(m)
	if u.MaxPaths > 0 {
		m.ex.maxPaths = u.MaxPaths
	}
	m.noMerge = u.NoMerge
	m.mergeLoops = u.MergeLoops
	m.funcsSeen = map[*ssa.Function]bool{}
	m.steps = 0
	m.locksHeld = 0
	q0, st0, se0 := m.sol.Queries, m.sol.Time, m.sol.Errors
	if u.QTimeoutMs > 0 && !strings.Contains(m.sol.bin, "cvc5") {
		m.sol.send(fmt.Sprintf("(set-option :timeout %d)", u.QTimeoutMs))
		defer m.sol.send(fmt.Sprintf("(set-option :timeout %d)", m.sol.timeoutMs))
	}
	parts := strings.SplitN(u.Harness, ".", 2)
	pkg := l.byName[parts[0]]
	var fn *ssa.Function
	if pkg != nil {
		fn = pkg.Func(parts[1])
	}
	if fn == nil {
		res.Problems = append(res.Problems, "harness not found: "+u.Harness)
		return
	}
	// sampling of queries for cross-solver checks
	nq := 0
	if sampleDir != "" {
		m.sol.recorder = func(script string, r Result) {
			nq++
			if r == Unknown {
				return
			}
			if nq <= 3 || rng.Intn(40) == 0 {
				name := filepath.Join(sampleDir, fmt.Sprintf("%s_%06d_%s.smt2", sanitize(u.ID), nq, r))
				os.WriteFile(name, []byte(script), 0o644)
			}
		}
	} else {
		m.sol.recorder = nil
	}
	deadline := time.Duration(u.TimeoutMs) * time.Millisecond
	m.deadline = time.Time{}
	if deadline > 0 {
		m.deadline = t0.Add(deadline)
	}
	timedOut := false
	defer func() {
		if r := recover(); r != nil {
			res.Problems = append(res.Problems, fmt.Sprintf("engine panic: %v", r))
			// solver state may be inconsistent: restart it
			m.sol.Close()
			m.sol.start()
			m.trail = nil
		}
		res.WallS = time.Since(t0).Seconds()
	}()
	m.sol.Push()
	m.ex.Explore(func() {
		if deadline > 0 && time.Since(t0) > deadline {
			timedOut = true
			panic(unsupported("unit time budget exceeded"))
		}
		m.callFn(fn, nil, nil, nil)
	}, func(o PathOutcome) {
		res.Outcomes[o.Kind]++
		switch o.Kind {
		case "panic":
			ob := Obligation{ID: "no-uncaught-panic", Kind: "nopanic", Pos: o.Msg, Result: "sat", Model: m.ex.currentModel(), PathLen: m.ex.pos, Msg: o.Msg}
			m.ex.Obls = append(m.ex.Obls, ob)
		case "unsupported", "engine-error":
			if len(res.Problems) < 20 {
				res.Problems = append(res.Problems, o.Kind+": "+o.Msg)
			}
			if timedOut {
				m.ex.maxPaths = 0
			}
		}
	})
	m.sol.PopTo(0)
	e := m.ex
	res.Paths, res.Aborted = e.Paths, e.Aborted
	res.Obligations = e.Obls
	for i := range e.Obls {
		if e.Obls[i].Result == "sat" {
			// complete the model: inputs the solver never saw are unconstrained on this path
			if e.Obls[i].Model == nil {
				e.Obls[i].Model = Model{}
			}
			for name, rg := range u.varRanges {
				if _, ok := e.Obls[i].Model[name]; !ok {
					e.Obls[i].Model[name] = rg[0]
				}
			}
		}
	}
	for _, o := range e.Obls {
		res.Counts[o.Kind+":"+o.Result]++
		if o.Result == "unknown" {
			res.Problems = append(res.Problems, "solver returned unknown for "+o.ID+" @"+o.Pos)
		}
	}
	res.Reached = e.Reached
	res.VarRanges = u.varRanges
	for f := range m.funcsSeen {
		res.Funcs = append(res.Funcs, f.String()+" ("+posOf(m.prog, f.Pos())+")")
	}
	sort.Strings(res.Funcs)
	res.Native = u.native
	res.FeasQ, res.AssertQ = e.FeasQueries, e.AssertQueries
	res.SolverQ = m.sol.Queries - q0
	res.SolverS = (m.sol.Time - st0).Seconds()
	res.SolverErr = m.sol.Errors - se0
	if res.SolverErr > 0 {
		res.Problems = append(res.Problems, fmt.Sprintf("%d solver (error lines: results inconclusive", res.SolverErr))
		m.sol.Errors = 0
	}
	res.UnknownFeas = e.unknownFeas
	res.Merges, res.MergeFails = e.Merges, e.MergeFails
	res.NonTrivial, res.TrivialOK = e.NonTrivial, e.trivialOK
	res.Steps = m.steps
	res.Samples = e.Samples
	return
}

func sanitize(s string) string {
	return strings.Map(func(r rune) rune {
		if r >= 'a' && r <= 'z' || r >= 'A' && r <= 'Z' || r >= '0' && r <= '9' || r == '_' || r == '-' {
			return r
		}
		return '_'
	}, s)
}

func main() {
	if len(os.Args) < 2 {
		fmt.Fprintln(os.Stderr, "usage: symgo run|list ...")
		os.Exit(2)
	}
	switch os.Args[1] {
	case "run":
		cmdRun(os.Args[2:])
	case "list":
		cmdList(os.Args[2:])
	case "scan":
		cmdScan(os.Args[2:])
	default:
		fmt.Fprintln(os.Stderr, "unknown command")
		os.Exit(2)
	}
}

func cmdList(args []string) {
	fs := flag.NewFlagSet("list", flag.ExitOnError)
	repo := fs.String("repo", "/repo", "")
	hd := fs.String("harness", "/verif/harness", "")
	fs.Parse(args)
	l, err := load(*repo, *hd, nil)
	if err != nil {
		fmt.Fprintln(os.Stderr, err)
		os.Exit(2)
	}
	out := map[string]any{}
	var hs []string
	for _, p := range l.pkgs {
		if !strings.HasPrefix(p.Pkg.Path(), "github.com/6tail/lunar-go") {
			continue
		}
		for name, mem := range p.Members {
			if f, ok := mem.(*ssa.Function); ok && strings.HasPrefix(name, "VH_") {
				hs = append(hs, p.Pkg.Name()+"."+f.Name())
			}
		}
	}
	sort.Strings(hs)
	out["harnesses"] = hs
	// exported zero-argument methods per named type in package calendar (for C08)
	meths := map[string][]string{}
	scalar := map[string][]string{}
	if cal := l.byName["calendar"]; cal != nil {
		for name, mem := range cal.Members {
			tn, ok := mem.(*ssa.Type)
			if !ok {
				continue
			}
			named, ok := tn.Type().(*types.Named)
			if !ok {
				continue
			}
			ms := l.prog.MethodSets.MethodSet(types.NewPointer(named))
			for i := 0; i < ms.Len(); i++ {
				sel := ms.At(i)
				f := sel.Obj().(*types.Func)
				sig := f.Type().(*types.Signature)
				if f.Exported() && sig.Params().Len() == 0 {
					meths[name] = append(meths[name], f.Name()+":"+sig.Results().String())
				}
				// exported methods whose parameters are all int / bool (for the C09 shared-write walk)
				if f.Exported() && sig.Params().Len() > 0 && sig.Params().Len() <= 3 {
					var ps []string
					for k := 0; k < sig.Params().Len(); k++ {
						if b, ok := sig.Params().At(k).Type().(*types.Basic); ok && (b.Kind() == types.Int || b.Kind() == types.Bool) {
							ps = append(ps, b.Name())
						}
					}
					if len(ps) == sig.Params().Len() {
						scalar[name] = append(scalar[name], f.Name()+":"+strings.Join(ps, ","))
					}
				}
			}
			sort.Strings(meths[name])
			sort.Strings(scalar[name])
		}
	}
	out["zero_arg_methods"] = meths
	out["scalar_arg_methods"] = scalar
	json.NewEncoder(os.Stdout).Encode(out)
}

func cmdRun(args []string) {
	fs := flag.NewFlagSet("run", flag.ExitOnError)
	repo := fs.String("repo", "/repo", "repository root")
	hd := fs.String("harness", "/verif/harness", "harness dir")
	unitsFile := fs.String("units", "", "units json")
	outFile := fs.String("out", "", "results json")
	jobs := fs.Int("j", 8, "workers")
	solver := fs.String("solver", "z3", "solver binary")
	timeout := fs.Int("timeout", 20000, "per-query timeout ms")
	sampleDir := fs.String("samples", "", "directory for sampled query scripts")
	seed := fs.Int64("seed", 1, "seed")
	verbose := fs.Bool("v", false, "")
	smtlog := fs.String("smtlog", "", "")
	fs.Parse(args)
	var units []*Unit
	data, err := os.ReadFile(*unitsFile)
	if err != nil {
		fmt.Fprintln(os.Stderr, err)
		os.Exit(2)
	}
	if err := json.Unmarshal(data, &units); err != nil {
		fmt.Fprintln(os.Stderr, err)
		os.Exit(2)
	}
	t0 := time.Now()
	l, err := load(*repo, *hd, nil)
	if err != nil {
		fmt.Fprintln(os.Stderr, "LOAD-ERROR:", err)
		os.Exit(2)
	}
	loadS := time.Since(t0).Seconds()
	if *sampleDir != "" {
		os.MkdirAll(*sampleDir, 0o755)
	}
	results := make([]UnitResult, len(units))
	var wg sync.WaitGroup
	ch := make(chan int)
	nw := *jobs
	if nw > len(units) {
		nw = len(units)
	}
	var mu sync.Mutex
	done := 0
	for w := 0; w < nw; w++ {
		wg.Add(1)
		go func(w int) {
			defer wg.Done()
			m, err := newMachine(l, *solver, *timeout)
			if err != nil {
				fmt.Fprintln(os.Stderr, "machine:", err)
				return
			}
			if *smtlog != "" && w == 0 {
				f, _ := os.Create(*smtlog)
				m.sol.log = f
			}
			rng := rand.New(rand.NewSource(*seed + int64(w)))
			for i := range ch {
				results[i] = m.runUnit(l, units[i], *sampleDir, rng)
				mu.Lock()
				done++
				if *verbose {
					r := results[i]
					fmt.Fprintf(os.Stderr, "[%d/%d] %s %.1fs paths=%d %v problems=%v\n", done, len(units), r.ID, r.WallS, r.Paths, r.Counts, r.Problems)
				}
				mu.Unlock()
			}
			m.sol.Close()
		}(w)
	}
	for i := range units {
		ch <- i
	}
	close(ch)
	wg.Wait()
	out := map[string]any{"load_s": loadS, "wall_s": time.Since(t0).Seconds(), "results": results, "now": time.Now().Format(time.RFC3339)}
	f, err := os.Create(*outFile)
	if err != nil {
		fmt.Fprintln(os.Stderr, err)
		os.Exit(2)
	}
	enc := json.NewEncoder(f)
	enc.SetIndent("", " ")
	enc.Encode(out)
	f.Close()
}
