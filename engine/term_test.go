package main

import (
	"fmt"
	"math"
	"math/rand"
	"strings"
	"testing"
)

// random expression trees: the simplified term must evaluate like the naive Go computation, and every
// value must lie inside the term's interval
func TestTermsAgainstBruteForce(t *testing.T) {
	rnd := rand.New(rand.NewSource(1))
	for iter := 0; iter < 3000; iter++ {
		b := NewTermBank()
		x := b.Var("x", SInt, -20, 40)
		y := b.Var("y", SInt, 0, 13)
		type node struct {
			t *Term
			f func(xv, yv int64) int64
		}
		leaves := []node{{x, func(a, c int64) int64 { return a }}, {y, func(a, c int64) int64 { return c }}}
		var gen func(d int) node
		gen = func(d int) node {
			if d == 0 || rnd.Intn(4) == 0 {
				if rnd.Intn(3) == 0 {
					k := int64(rnd.Intn(41) - 20)
					return node{b.Int(k), func(a, c int64) int64 { return k }}
				}
				return leaves[rnd.Intn(2)]
			}
			l, r := gen(d-1), gen(d-1)
			switch rnd.Intn(7) {
			case 0:
				return node{b.Add(l.t, r.t), func(a, c int64) int64 { return l.f(a, c) + r.f(a, c) }}
			case 1:
				return node{b.Sub(l.t, r.t), func(a, c int64) int64 { return l.f(a, c) - r.f(a, c) }}
			case 2:
				k := int64(rnd.Intn(9) - 4)
				return node{b.MulC(l.t, k), func(a, c int64) int64 { return k * l.f(a, c) }}
			case 3:
				k := int64(rnd.Intn(11) + 1)
				return node{b.Quo(l.t, b.Int(k)), func(a, c int64) int64 { return l.f(a, c) / k }}
			case 4:
				k := int64(rnd.Intn(11) + 1)
				return node{b.Rem(l.t, b.Int(k)), func(a, c int64) int64 { return l.f(a, c) % k }}
			case 5:
				cnd := b.Lt(l.t, r.t)
				e := gen(d - 1)
				return node{b.Ite(cnd, r.t, e.t), func(a, c int64) int64 {
					if l.f(a, c) < r.f(a, c) {
						return r.f(a, c)
					}
					return e.f(a, c)
				}}
			default:
				cnd := b.Eq(l.t, r.t)
				return node{b.Ite(cnd, b.Int(1), b.Int(0)), func(a, c int64) int64 {
					if l.f(a, c) == r.f(a, c) {
						return 1
					}
					return 0
				}}
			}
		}
		n := gen(4)
		for xv := int64(-20); xv <= 40; xv += 3 {
			for yv := int64(0); yv <= 13; yv++ {
				got, ok := n.t.Eval(Model{"x": xv, "y": yv}, map[*Term]int64{})
				want := n.f(xv, yv)
				if !ok || got != want {
					t.Fatalf("iter %d: term %v at x=%d y=%d: got %d ok=%v want %d", iter, n.t, xv, yv, got, ok, want)
				}
				if got < n.t.lo || got > n.t.hi {
					t.Fatalf("iter %d: value %d outside interval [%d,%d] of %v", iter, got, n.t.lo, n.t.hi, n.t)
				}
			}
		}
	}
}

// the SMT rendering of Go's truncated / and % agrees with Go on a grid (decided by the solver)
func TestQuoRemEncoding(t *testing.T) {
	s, err := NewSolver("z3-new", 20000)
	if err != nil {
		t.Skip("no solver")
	}
	defer s.Close()
	b := NewTermBank()
	x := b.Var("x", SInt, -50, 50)
	for _, k := range []int64{1, 2, 3, 7, 12, 60} {
		for xv := int64(-50); xv <= 50; xv += 7 {
			q := b.Quo(x, b.Int(k))
			r := b.Rem(x, b.Int(k))
			s.Push()
			s.Assert(b.Eq(x, b.Int(xv)))
			s.Assert(b.Not(b.And(b.Eq(q, b.Int(xv/k)), b.Eq(r, b.Int(xv%k)))))
			if res := s.Check(); res != Unsat {
				t.Fatalf("quo/rem encoding differs from Go at x=%d k=%d: %v", xv, k, res)
			}
			s.Pop()
		}
	}
}

func newTestMachine() *Machine {
	m := &Machine{tb: NewTermBank()}
	m.ex = newExplorer(m)
	return m
}

// the Sprintf model against the real fmt on concrete arguments, and symbolic renderings evaluated per value
func TestSprintfModel(t *testing.T) {
	m := newTestMachine()
	rnd := rand.New(rand.NewSource(2))
	formats := []string{"%04d-%02d-%02d", "%v %02d:%02d:%02d", "%d-%d", "%d-0-%d", "%s%d", "%d年%s月", "%x", "%02d:59", "wrong day %v", "%d.%d.%d"}
	for i := 0; i < 3000; i++ {
		f := formats[rnd.Intn(len(formats))]
		var args []value
		var nat []any
		for _, c := range strings.Split(f, "%")[1:] {
			verb := strings.TrimLeft(c, "0123456789")[0]
			switch verb {
			case 's':
				s := []string{"甲", "子丑", "", "ab"}[rnd.Intn(4)]
				args, nat = append(args, s), append(nat, s)
			default:
				k := int64(rnd.Intn(20000) - 100)
				if verb == 'x' {
					k = int64(rnd.Intn(300))
				}
				if strings.Contains(f, "%v %02d") && verb == 'v' {
					args, nat = append(args, "2020-01-02"), append(nat, "2020-01-02")
					continue
				}
				args, nat = append(args, k), append(nat, int(k))
			}
		}
		got := m.sprintf(f, args)
		want := fmt.Sprintf(f, nat...)
		if got != want {
			t.Fatalf("sprintf(%q,%v) = %v want %q", f, args, describe(got), want)
		}
	}
	// symbolic integer argument: every alternative renders like fmt
	x := m.tb.Var("x", SInt, 0, 50)
	r := m.sprintf("%04d-%02d", []value{x, x})
	alts, ok := m.altsOf(r)
	if !ok {
		t.Fatal("template not expandable")
	}
	for _, a := range alts {
		for v := int64(0); v <= 50; v++ {
			g, _ := a.g.Eval(Model{"x": v}, map[*Term]int64{})
			if g != 0 && a.s != fmt.Sprintf("%04d-%02d", v, v) {
				t.Fatalf("alt %q selected for x=%d", a.s, v)
			}
		}
	}
}

// template comparison = Go's string comparison for every pair of values
func TestTemplateCompare(t *testing.T) {
	m := newTestMachine()
	x := m.tb.Var("x", SInt, 1, 12)
	y := m.tb.Var("y", SInt, 1, 31)
	a := m.sprintf("%04d-%02d-%02d", []value{int64(2020), x, y})
	for _, c := range []string{"2020-02-04", "2019-12-31", "2020-12-31", "2021-01-01", "2020-02-29"} {
		r := m.strCompare(a, c)
		for xv := int64(1); xv <= 12; xv++ {
			for yv := int64(1); yv <= 31; yv++ {
				want := int64(strings.Compare(fmt.Sprintf("%04d-%02d-%02d", 2020, xv, yv), c))
				var got int64
				switch rr := r.(type) {
				case int64:
					got = rr
				case *Term:
					got, _ = rr.Eval(Model{"x": xv, "y": yv}, map[*Term]int64{})
				}
				if got != want {
					t.Fatalf("compare with %s at %d-%d: got %d want %d", c, xv, yv, got, want)
				}
			}
		}
		eq := m.strEq(a, c)
		for xv := int64(1); xv <= 12; xv++ {
			for yv := int64(1); yv <= 31; yv++ {
				want := fmt.Sprintf("%04d-%02d-%02d", 2020, xv, yv) == c
				var got bool
				switch rr := eq.(type) {
				case bool:
					got = rr
				case *Term:
					g, _ := rr.Eval(Model{"x": xv, "y": yv}, map[*Term]int64{})
					got = g != 0
				}
				if got != want {
					t.Fatalf("eq with %s at %d-%d: got %v want %v", c, xv, yv, got, want)
				}
			}
		}
	}
}

// the exact-float layer: whenever it returns a rational, the IEEE result is that rational; tables are IEEE by construction
func TestFloatLayer(t *testing.T) {
	m := newTestMachine()
	rnd := rand.New(rand.NewSource(3))
	y := m.tb.Var("y", SInt, 1, 9998)
	mm := m.tb.Var("mm", SInt, 3, 14)
	fy := m.floatFromInt(y)
	// int(365.25*(y+4716)), int(30.6001*(m+1)), (jd+0.5) forms used by the library
	e1 := m.floatToInt(m.floatBinop(tokMUL, 365.25, m.floatBinop(tokADD, fy, 4716.0, nil), nil), nil)
	e2 := m.floatToInt(m.floatBinop(tokMUL, 30.6001, m.floatBinop(tokADD, m.floatFromInt(mm), 1.0, nil), nil), nil)
	e3 := m.floatToInt(m.mathFn("Ceil", []value{m.floatBinop(tokQUO, m.floatFromInt(mm), 7.0, nil)}, nil), nil)
	for i := 0; i < 5000; i++ {
		yv, mv := int64(rnd.Intn(9998)+1), int64(rnd.Intn(12)+3)
		md := Model{"y": yv, "mm": mv}
		g1, _ := e1.(*Term).Eval(md, map[*Term]int64{})
		g2, _ := e2.(*Term).Eval(md, map[*Term]int64{})
		g3, _ := e3.(*Term).Eval(md, map[*Term]int64{})
		if g1 != int64(365.25*(float64(yv)+4716)) || g2 != int64(30.6001*(float64(mv)+1)) || g3 != int64(math.Ceil(float64(mv)/7)) {
			t.Fatalf("float layer differs at y=%d m=%d: %d %d %d", yv, mv, g1, g2, g3)
		}
	}
}
