package main

// Symbolic strings: concatenations of literals, formatted integers and
// guarded choices.  String functions on choice-expandable operands are
// evaluated natively per alternative ("lifting").

import (
	"fmt"
	"go/token"
	"strconv"
	"strings"

	"golang.org/x/tools/go/ssa"
)

const maxAlts = 4096

// altSkip: returned by a lifted function for an alternative that must be left out of the merge
type altSkip struct{}

func (m *Machine) mkChoice(alts []strAlt) value {
	// merge equal strings, drop false guards
	var out []strAlt
	idx := map[string]int{}
	for _, a := range alts {
		if a.g.IsConst() {
			if a.g.k == 0 {
				continue
			}
			return a.s
		}
		if i, ok := idx[a.s]; ok {
			out[i].g = m.tb.Or(out[i].g, a.g)
			continue
		}
		idx[a.s] = len(out)
		out = append(out, a)
	}
	if len(out) == 0 {
		if len(alts) > 0 {
			return alts[0].s
		}
		return ""
	}
	if len(out) == 1 {
		return out[0].s
	}
	return &SymStr{parts: []strPart{{kind: 2, alts: out}}}
}

func (m *Machine) strParts(v value) []strPart {
	switch v := v.(type) {
	case string:
		if v == "" {
			return nil
		}
		return []strPart{{kind: 0, lit: v}}
	case *SymStr:
		return v.parts
	}
	panic(engineError{fmt.Sprintf("strParts %T", v)})
}

func (m *Machine) mkStr(parts []strPart) value {
	var out []strPart
	for _, p := range parts {
		if p.kind == 1 && p.num.IsConst() {
			p = strPart{kind: 0, lit: fmtNum(p.num.k, p.w, p.hex)}
		}
		if p.kind == 1 && p.w == 0 && !p.hex && p.num.lo >= 0 && p.num.hi < inf {
			// %d of a value with a provable digit count renders like the zero-padded form of that width
			k, lim := 1, int64(10)
			for p.num.hi >= lim {
				k++
				lim *= 10
			}
			if k == 1 || p.num.lo >= lim/10 {
				p.w = k
			}
		}
		if p.kind == 0 {
			if p.lit == "" {
				continue
			}
			if n := len(out); n > 0 && out[n-1].kind == 0 {
				out[n-1].lit += p.lit
				continue
			}
		}
		out = append(out, p)
	}
	if len(out) == 0 {
		return ""
	}
	if len(out) == 1 && out[0].kind == 0 {
		return out[0].lit
	}
	return &SymStr{parts: out}
}

func fmtNum(k int64, w int, hex bool) string {
	if hex {
		return strconv.FormatInt(k, 16)
	}
	if w > 0 {
		return fmt.Sprintf("%0*d", w, k)
	}
	return strconv.FormatInt(k, 10)
}

func (m *Machine) concat(a, b value) value {
	return m.mkStr(append(append([]strPart(nil), m.strParts(a)...), m.strParts(b)...))
}

// expand a string value into guarded concrete alternatives.
func (m *Machine) altsOf(v value) ([]strAlt, bool) {
	switch v := v.(type) {
	case string:
		return []strAlt{{m.tb.True, v}}, true
	case *SymStr:
		cur := []strAlt{{m.tb.True, ""}}
		for _, p := range v.parts {
			var pa []strAlt
			switch p.kind {
			case 0:
				pa = []strAlt{{m.tb.True, p.lit}}
			case 1:
				if p.num.lo <= -inf || p.num.hi >= inf || p.num.hi-p.num.lo >= 512 {
					return nil, false
				}
				for k := p.num.lo; k <= p.num.hi; k++ {
					pa = append(pa, strAlt{m.tb.Eq(p.num, m.tb.Int(k)), fmtNum(k, p.w, p.hex)})
				}
			case 2:
				pa = p.alts
			}
			if len(cur)*len(pa) > maxAlts {
				return nil, false
			}
			var nx []strAlt
			for _, a := range cur {
				for _, b := range pa {
					g := m.tb.And(a.g, b.g)
					if g.IsConst() && g.k == 0 {
						continue
					}
					nx = append(nx, strAlt{g, a.s + b.s})
				}
			}
			cur = nx
		}
		return cur, true
	}
	return nil, false
}

// liftStr evaluates f natively over the product of alternatives of the
// symbolic arguments (strings and small-range ints).
func (m *Machine) liftStr(args []value, f func([]value) value) value {
	type alt struct {
		g *Term
		v value
	}
	cur := []struct {
		g    *Term
		vals []value
	}{{m.tb.True, nil}}
	for _, a := range args {
		var as []alt
		switch x := a.(type) {
		case *SymStr:
			sa, ok := m.altsOf(x)
			if !ok {
				panic(unsupported("string operand not expandable: " + x.String()))
			}
			for _, s := range sa {
				as = append(as, alt{s.g, s.s})
			}
		case *Term:
			if x.sort == SBool {
				as = []alt{{x, true}, {m.tb.Not(x), false}}
			} else {
				if x.lo <= -inf || x.hi >= inf || x.hi-x.lo >= 2048 {
					panic(unsupported("int operand of string function has large range"))
				}
				for k := x.lo; k <= x.hi; k++ {
					as = append(as, alt{m.tb.Eq(x, m.tb.Int(k)), k})
				}
			}
		default:
			as = []alt{{m.tb.True, a}}
		}
		if len(cur)*len(as) > maxAlts*4 {
			panic(unsupported("too many alternatives in string function"))
		}
		var nx []struct {
			g    *Term
			vals []value
		}
		for _, c := range cur {
			for _, b := range as {
				g := m.tb.And(c.g, b.g)
				if g.IsConst() && g.k == 0 {
					continue
				}
				nx = append(nx, struct {
					g    *Term
					vals []value
				}{g, append(append([]value(nil), c.vals...), b.v)})
			}
		}
		cur = nx
	}
	if len(cur) == 0 {
		panic(pathAbort{"no feasible alternative"})
	}
	type res struct {
		g *Term
		v value
	}
	var rs []res
	for _, c := range cur {
		m.liftGuard = c.g
		v := f(c.vals)
		if _, skip := v.(altSkip); skip {
			continue
		}
		rs = append(rs, res{c.g, v})
	}
	m.liftGuard = nil
	if len(rs) == 0 {
		return altSkip{}
	}
	return m.mergeAlts(len(rs), func(i int) (*Term, value) { return rs[i].g, rs[i].v })
}

// mergeAlts merges guarded concrete results (guards disjoint & exhaustive).
func (m *Machine) mergeAlts(n int, at func(int) (*Term, value)) value {
	_, v0 := at(0)
	switch v0.(type) {
	case string:
		var alts []strAlt
		for i := 0; i < n; i++ {
			g, v := at(i)
			alts = append(alts, strAlt{g, v.(string)})
		}
		return m.mkChoice(alts)
	case int64:
		// group by value
		groups := map[int64][]*Term{}
		var order []int64
		for i := 0; i < n; i++ {
			g, v := at(i)
			k := v.(int64)
			if _, ok := groups[k]; !ok {
				order = append(order, k)
			}
			groups[k] = append(groups[k], g)
		}
		r := m.tb.Int(order[len(order)-1])
		for i := len(order) - 2; i >= 0; i-- {
			r = m.tb.Ite(m.tb.Or(groups[order[i]]...), m.tb.Int(order[i]), r)
		}
		return m.simp(r)
	case bool:
		var ts []*Term
		for i := 0; i < n; i++ {
			g, v := at(i)
			if v.(bool) {
				ts = append(ts, g)
			}
		}
		if len(ts) == n {
			return true
		}
		return m.simp(m.tb.Or(ts...))
	case SliceV:
		// all alternatives must agree in length; element-wise merge
		s0 := v0.(SliceV)
		for i := 1; i < n; i++ {
			_, v := at(i)
			if v.(SliceV).len != s0.len {
				// fork on alternatives
				for j := 0; j < n-1; j++ {
					g, v := at(j)
					if m.decide(g) {
						return v
					}
				}
				_, v := at(n - 1)
				return v
			}
		}
		arr := make([]value, s0.len)
		for k := range arr {
			arr[k] = m.mergeAlts(n, func(i int) (*Term, value) {
				g, v := at(i)
				s := v.(SliceV)
				return g, s.arr[s.off+k]
			})
		}
		return SliceV{arr: arr, len: len(arr), cap: len(arr)}
	case Tuple:
		t0 := v0.(Tuple)
		out := make(Tuple, len(t0))
		for k := range out {
			out[k] = m.mergeAlts(n, func(i int) (*Term, value) {
				g, v := at(i)
				return g, v.(Tuple)[k]
			})
		}
		return out
	case Iface:
		// error values from strconv: all nil expected
		allNil := true
		for i := 0; i < n; i++ {
			_, v := at(i)
			if v.(Iface).t != nil {
				allNil = false
			}
		}
		if allNil {
			return Iface{}
		}
	case float64:
		same := true
		for i := 1; i < n; i++ {
			_, v := at(i)
			if v.(float64) != v0.(float64) {
				same = false
			}
		}
		if same {
			return v0
		}
	}
	// fallback: fork
	for j := 0; j < n-1; j++ {
		g, v := at(j)
		if m.decide(g) {
			return v
		}
	}
	_, v := at(n - 1)
	return v
}

func (m *Machine) iteStr(g *Term, a, b value) value {
	aa, ok1 := m.altsOf(a)
	ba, ok2 := m.altsOf(b)
	if !ok1 || !ok2 {
		// same template, differing numbers?
		if as, ok := a.(*SymStr); ok {
			if bs, ok := b.(*SymStr); ok && sameShape(as, bs) {
				parts := make([]strPart, len(as.parts))
				for i, p := range as.parts {
					q := bs.parts[i]
					switch p.kind {
					case 0:
						parts[i] = p
					case 1:
						parts[i] = strPart{kind: 1, num: m.tb.Ite(g, p.num, q.num), w: p.w, hex: p.hex}
					default:
						panic(mergeFail{"string ite with choice parts"})
					}
				}
				return m.mkStr(parts)
			}
		}
		panic(mergeFail{"string ite not expandable"})
	}
	var alts []strAlt
	ng := m.tb.Not(g)
	for _, x := range aa {
		alts = append(alts, strAlt{m.tb.And(g, x.g), x.s})
	}
	for _, x := range ba {
		alts = append(alts, strAlt{m.tb.And(ng, x.g), x.s})
	}
	return m.mkChoice(alts)
}

func sameShape(a, b *SymStr) bool {
	if len(a.parts) != len(b.parts) {
		return false
	}
	for i, p := range a.parts {
		q := b.parts[i]
		if p.kind != q.kind {
			return false
		}
		switch p.kind {
		case 0:
			if p.lit != q.lit {
				return false
			}
		case 1:
			if p.w != q.w || p.hex != q.hex {
				return false
			}
		case 2:
			return false
		}
	}
	return true
}

// fixedWidth reports whether every numeric part renders with exactly w digits.
func (m *Machine) fixedWidth(p strPart) bool {
	if p.kind != 1 || p.hex || p.w <= 0 {
		return false
	}
	lim := int64(1)
	for i := 0; i < p.w; i++ {
		lim *= 10
	}
	if p.num.lo >= 0 && p.num.hi < lim {
		return true
	}
	return m.ex.proveRange(p.num, 0, lim-1)
}

// strEqConst: template match of a symbolic string against a constant.
func (m *Machine) strEqConst(s *SymStr, c string) *Term {
	if as, ok := m.altsOfCheap(s); ok {
		var ts []*Term
		for _, a := range as {
			if a.s == c {
				ts = append(ts, a.g)
			}
		}
		return m.tb.Or(ts...)
	}
	return m.matchParts(s.parts, c)
}

// altsOfCheap expands only when no numeric part is present (pure choices).
func (m *Machine) altsOfCheap(s *SymStr) ([]strAlt, bool) {
	for _, p := range s.parts {
		if p.kind == 1 {
			return nil, false
		}
	}
	return m.altsOf(s)
}

func isDigit(b byte) bool { return b >= '0' && b <= '9' }

func (m *Machine) matchParts(parts []strPart, c string) *Term {
	if len(parts) == 0 {
		return m.tb.Bool(c == "")
	}
	p := parts[0]
	switch p.kind {
	case 0:
		if !strings.HasPrefix(c, p.lit) {
			return m.tb.False
		}
		return m.matchParts(parts[1:], c[len(p.lit):])
	case 2:
		var ts []*Term
		for _, a := range p.alts {
			if strings.HasPrefix(c, a.s) {
				ts = append(ts, m.tb.And(a.g, m.matchParts(parts[1:], c[len(a.s):])))
			}
		}
		return m.tb.Or(ts...)
	case 1:
		if p.hex {
			panic(unsupported("hex template match"))
		}
		// candidate digit runs (optionally signed)
		var ts []*Term
		start := 0
		neg := false
		if len(c) > 0 && c[0] == '-' {
			neg = true
			start = 1
		}
		for e := start + 1; e <= len(c) && isDigit(c[e-1]); e++ {
			txt := c[:e]
			k, err := strconv.ParseInt(txt, 10, 64)
			if err != nil {
				break
			}
			// canonical rendering check
			if fmtNum(k, p.w, false) != txt {
				continue
			}
			_ = neg
			ts = append(ts, m.tb.And(m.tb.Eq(p.num, m.tb.Int(k)), m.matchParts(parts[1:], c[e:])))
		}
		return m.tb.Or(ts...)
	}
	panic("matchParts")
}

// order comparison: returns Int term in {-1,0,1} (strings.Compare semantics)
func (m *Machine) strCompare(a, b value) value {
	if as, ok := a.(string); ok {
		if bs, ok := b.(string); ok {
			return int64(strings.Compare(as, bs))
		}
	}
	// fixed-width templates: field-wise lexicographic comparison
	if r, ok := m.templCompare(m.strParts(a), m.strParts(b)); ok {
		return r
	}
	return m.liftStr([]value{a, b}, func(v []value) value { return int64(strings.Compare(v[0].(string), v[1].(string))) })
}

type fld struct {
	lit string
	num *Term
	w   int
}

func (m *Machine) fieldsOf(parts []strPart) ([]fld, bool) {
	var fs []fld
	for _, p := range parts {
		switch p.kind {
		case 0:
			fs = append(fs, fld{lit: p.lit})
		case 1:
			if !m.fixedWidth(p) {
				return nil, false
			}
			fs = append(fs, fld{num: p.num, w: p.w})
		default:
			return nil, false
		}
	}
	return fs, true
}

// templCompare aligns two templates position by position.
func (m *Machine) templCompare(a, b []strPart) (value, bool) {
	fa, ok1 := m.fieldsOf(a)
	fb, ok2 := m.fieldsOf(b)
	if !ok1 || !ok2 {
		return nil, false
	}
	type cmp struct{ x, y *Term } // numeric field comparisons in order
	var seq []any                 // either cmp or int (literal decided)
	i, j := 0, 0
	var ra, rb string // pending literal remainders
	for {
		if ra == "" && i < len(fa) && fa[i].num == nil {
			ra = fa[i].lit
			i++
			continue
		}
		if rb == "" && j < len(fb) && fb[j].num == nil {
			rb = fb[j].lit
			j++
			continue
		}
		aNum := ra == "" && i < len(fa)
		bNum := rb == "" && j < len(fb)
		aEnd := ra == "" && i >= len(fa)
		bEnd := rb == "" && j >= len(fb)
		switch {
		case aEnd && bEnd:
			seq = append(seq, 0)
		case aEnd:
			seq = append(seq, -1)
		case bEnd:
			seq = append(seq, 1)
		case aNum && bNum:
			if fa[i].w != fb[j].w {
				return nil, false
			}
			seq = append(seq, cmp{fa[i].num, fb[j].num})
			i++
			j++
			continue
		case aNum: // number vs literal text
			w := fa[i].w
			if len(rb) < w {
				return nil, false
			}
			txt := rb[:w]
			allDig := true
			for k := 0; k < w; k++ {
				if !isDigit(txt[k]) {
					allDig = false
				}
			}
			if !allDig {
				return nil, false
			}
			k, _ := strconv.ParseInt(txt, 10, 64)
			seq = append(seq, cmp{fa[i].num, m.tb.Int(k)})
			rb = rb[w:]
			i++
			continue
		case bNum:
			w := fb[j].w
			if len(ra) < w {
				return nil, false
			}
			txt := ra[:w]
			for k := 0; k < w; k++ {
				if !isDigit(txt[k]) {
					return nil, false
				}
			}
			k, _ := strconv.ParseInt(txt, 10, 64)
			seq = append(seq, cmp{m.tb.Int(k), fb[j].num})
			ra = ra[w:]
			j++
			continue
		default: // literal vs literal
			n := len(ra)
			if len(rb) < n {
				n = len(rb)
			}
			c := strings.Compare(ra[:n], rb[:n])
			if c != 0 {
				seq = append(seq, c)
			} else {
				ra, rb = ra[n:], rb[n:]
				continue
			}
		}
		break
	}
	// fold from the end
	var r *Term
	for k := len(seq) - 1; k >= 0; k-- {
		switch s := seq[k].(type) {
		case int:
			r = m.tb.Int(int64(s))
		case cmp:
			r = m.tb.Ite(m.tb.Lt(s.x, s.y), m.tb.Int(-1), m.tb.Ite(m.tb.Lt(s.y, s.x), m.tb.Int(1), r))
		}
	}
	return m.simp(r), true
}

func (m *Machine) strEq(a, b value) value {
	as, aok := a.(string)
	bs, bok := b.(string)
	switch {
	case aok && bok:
		return as == bs
	case bok:
		return m.simp(m.strEqConst(a.(*SymStr), bs))
	case aok:
		return m.simp(m.strEqConst(b.(*SymStr), as))
	}
	x, y := a.(*SymStr), b.(*SymStr)
	if x == y {
		return true
	}
	if xa, ok := m.altsOfCheap(x); ok {
		if ya, ok := m.altsOfCheap(y); ok {
			// equality of two guarded choices: some string is selected on both sides
			gb := map[string][]*Term{}
			for _, al := range ya {
				gb[al.s] = append(gb[al.s], al.g)
			}
			var ts []*Term
			for _, al := range xa {
				if gs, ok := gb[al.s]; ok {
					ts = append(ts, m.tb.And(al.g, m.tb.Or(gs...)))
				}
			}
			return m.simp(m.tb.Or(ts...))
		}
	}
	if r, ok := m.alignedEq(x, y); ok {
		return r
	}
	if sameShape(x, y) {
		var ts []*Term
		for i, p := range x.parts {
			if p.kind == 1 {
				ts = append(ts, m.tb.Eq(p.num, y.parts[i].num))
			}
		}
		return m.simp(m.tb.And(ts...))
	}
	if r, ok := m.templCompare(x.parts, y.parts); ok {
		return m.simp(m.tb.Eq(m.toTerm(r), m.tb.Int(0)))
	}
	return m.liftStr([]value{a, b}, func(v []value) value { return v[0].(string) == v[1].(string) })
}

// partLen: byte length of a part when it is the same for every value
func (m *Machine) partLen(p strPart) (int, bool) {
	switch p.kind {
	case 0:
		return len(p.lit), true
	case 1:
		if m.fixedWidth(p) {
			return p.w, true
		}
	case 2:
		l := len(p.alts[0].s)
		for _, a := range p.alts {
			if len(a.s) != l {
				return 0, false
			}
		}
		return l, true
	}
	return 0, false
}

// alignedEq: two concatenations whose parts have fixed byte lengths and whose non-literal parts start and end
// at the same offsets are equal iff they are equal part by part.
func (m *Machine) alignedEq(x, y *SymStr) (value, bool) {
	type seg struct {
		off, n int
		p      strPart
	}
	split := func(s *SymStr) ([]seg, int, bool) {
		var out []seg
		off := 0
		for _, p := range s.parts {
			n, ok := m.partLen(p)
			if !ok {
				return nil, 0, false
			}
			out = append(out, seg{off, n, p})
			off += n
		}
		return out, off, true
	}
	xs, xl, ok1 := split(x)
	ys, yl, ok2 := split(y)
	if !ok1 || !ok2 {
		return nil, false
	}
	if xl != yl {
		return false, true
	}
	// flatten literals into byte maps; symbolic parts must coincide in extent, or face a literal
	lit := func(ss []seg) map[int]byte {
		mp := map[int]byte{}
		for _, s := range ss {
			if s.p.kind == 0 {
				for i := 0; i < s.n; i++ {
					mp[s.off+i] = s.p.lit[i]
				}
			}
		}
		return mp
	}
	xlit, ylit := lit(xs), lit(ys)
	find := func(ss []seg, off int) *seg {
		for i := range ss {
			if ss[i].p.kind != 0 && ss[i].off == off {
				return &ss[i]
			}
		}
		return nil
	}
	var conj []*Term
	done := map[int]bool{}
	one := func(a *seg, other []seg, olit map[int]byte) bool {
		if b := find(other, a.off); b != nil {
			if b.n != a.n {
				return false
			}
			if done[a.off] {
				return true
			}
			done[a.off] = true
			sa, sb := &SymStr{parts: []strPart{a.p}}, &SymStr{parts: []strPart{b.p}}
			var e value
			if a.p.kind == 1 && b.p.kind == 1 {
				e = m.simp(m.tb.Eq(a.p.num, b.p.num))
			} else if a.p.kind == 2 && b.p.kind == 2 {
				ea, _ := m.altsOf(sa)
				gb := map[string][]*Term{}
				eb, _ := m.altsOf(sb)
				for _, al := range eb {
					gb[al.s] = append(gb[al.s], al.g)
				}
				var ts []*Term
				for _, al := range ea {
					if gs, ok := gb[al.s]; ok {
						ts = append(ts, m.tb.And(al.g, m.tb.Or(gs...)))
					}
				}
				e = m.simp(m.tb.Or(ts...))
			} else {
				return false
			}
			conj = append(conj, m.toTerm(e))
			return true
		}
		// against literal bytes of the other side
		bs := make([]byte, a.n)
		for i := 0; i < a.n; i++ {
			c, ok := olit[a.off+i]
			if !ok {
				return false
			}
			bs[i] = c
		}
		conj = append(conj, m.strEqConst(&SymStr{parts: []strPart{a.p}}, string(bs)))
		return true
	}
	for i := range xs {
		if xs[i].p.kind != 0 && !one(&xs[i], ys, ylit) {
			return nil, false
		}
	}
	for i := range ys {
		if ys[i].p.kind != 0 && !one(&ys[i], xs, xlit) {
			return nil, false
		}
	}
	// literal against literal
	for off, c := range xlit {
		if d, ok := ylit[off]; ok && c != d {
			return false, true
		}
	}
	return m.simp(m.tb.And(conj...)), true
}

func (m *Machine) strBinop(op token.Token, x, y value, in ssa.Instruction) value {
	switch op {
	case token.ADD:
		return m.concat(x, y)
	case token.EQL:
		return m.strEq(x, y)
	case token.NEQ:
		return m.notVal(m.strEq(x, y))
	}
	c := m.strCompare(x, y)
	z := value(int64(0))
	var o token.Token
	switch op {
	case token.LSS, token.LEQ, token.GTR, token.GEQ:
		o = op
	default:
		panic(unsupported("string op " + op.String()))
	}
	return m.binop(o, c, z, nil, in)
}

func (m *Machine) strLen(s *SymStr) value {
	n := int64(0)
	fixed := true
	for _, p := range s.parts {
		switch p.kind {
		case 0:
			n += int64(len(p.lit))
		case 1:
			if m.fixedWidth(p) {
				n += int64(p.w)
			} else {
				fixed = false
			}
		case 2:
			l := len(p.alts[0].s)
			for _, a := range p.alts {
				if len(a.s) != l {
					fixed = false
				}
			}
			n += int64(l)
		}
	}
	if fixed {
		return n
	}
	return m.liftStr([]value{s}, func(v []value) value { return int64(len(v[0].(string))) })
}

func (m *Machine) strIndex(s *SymStr, idx value, in ssa.Instruction) value {
	n := m.strLen(s)
	nn, ok := n.(int64)
	if !ok {
		panic(unsupported("index into variable-length symbolic string"))
	}
	i := m.boundsCheck(idx, int(nn), in.Pos())
	if ci, ok := i.(int64); ok {
		// positional access on a fixed-layout template
		pos := int64(0)
		for _, p := range s.parts {
			var w int64
			switch p.kind {
			case 0:
				w = int64(len(p.lit))
			case 1:
				w = int64(p.w)
			case 2:
				w = int64(len(p.alts[0].s))
			}
			if ci < pos+w {
				off := ci - pos
				switch p.kind {
				case 0:
					return int64(p.lit[off])
				case 1:
					pow := int64(1)
					for k := int64(0); k < w-1-off; k++ {
						pow *= 10
					}
					dg := m.tb.Rem(m.tb.Quo(p.num, m.tb.Int(pow)), m.tb.Int(10))
					return m.simp(m.tb.Add(dg, m.tb.Int(48)))
				case 2:
					return m.mergeAlts(len(p.alts), func(k int) (*Term, value) { return p.alts[k].g, int64(p.alts[k].s[off]) })
				}
			}
			pos += w
		}
	}
	return m.liftStr([]value{s, i}, func(v []value) value { return int64(v[0].(string)[v[1].(int64)]) })
}

func (m *Machine) strSlice(s *SymStr, lo, hi int64, in ssa.Instruction) value {
	// positional slicing on fixed-width templates, else lifting
	n := m.strLen(s)
	if nn, ok := n.(int64); ok {
		if hi < 0 {
			hi = nn
		}
		if lo < 0 || hi > nn || lo > hi {
			m.tpanic(in.Pos(), "slice bounds out of range [%d:%d] with length %d", lo, hi, nn)
		}
		// try part-aligned slicing
		var out []strPart
		pos := int64(0)
		okAligned := true
		for _, p := range s.parts {
			var w int64
			switch p.kind {
			case 0:
				w = int64(len(p.lit))
			case 1:
				w = int64(p.w)
			case 2:
				w = int64(len(p.alts[0].s))
			}
			a, b := max64(lo, pos), min64(hi, pos+w)
			if a < b {
				switch {
				case a == pos && b == pos+w:
					out = append(out, p)
				case p.kind == 0:
					out = append(out, strPart{kind: 0, lit: p.lit[a-pos : b-pos]})
				case p.kind == 2:
					var alts []strAlt
					for _, al := range p.alts {
						alts = append(alts, strAlt{al.g, al.s[a-pos : b-pos]})
					}
					c := m.mkChoice(alts)
					out = append(out, m.strParts(c)...)
				case p.kind == 1 && m.fixedWidth(p):
					// digits a-pos .. b-pos of a zero-padded number are themselves a zero-padded number
					low := pos + w - b
					p10 := func(n int64) int64 {
						r := int64(1)
						for i := int64(0); i < n; i++ {
							r *= 10
						}
						return r
					}
					sub := m.tb.Rem(m.tb.Quo(p.num, m.tb.Int(p10(low))), m.tb.Int(p10(b-a)))
					out = append(out, strPart{kind: 1, num: sub, w: int(b - a)})
				default:
					okAligned = false
				}
			}
			pos += w
		}
		if okAligned {
			return m.mkStr(out)
		}
	}
	return m.liftStr([]value{s}, func(v []value) value {
		x := v[0].(string)
		h := hi
		if h < 0 {
			h = int64(len(x))
		}
		if lo < 0 || h > int64(len(x)) || lo > h {
			panic(unsupported("symbolic string slice out of range on an alternative"))
		}
		return x[lo:h]
	})
}

func (m *Machine) symStrToSlice(s *SymStr, bytes bool, in ssa.Instruction) value {
	r := m.liftStr([]value{s}, func(v []value) value { return stringToSlice(v[0].(string), bytes) })
	if sl, ok := r.(SliceV); ok {
		sl.src, sl.srcBytes, sl.srcLo = s, bytes, 0
		return sl
	}
	return r
}

// ---------- Sprintf model ----------

func (m *Machine) sprintf(format string, args []value) value {
	var parts []strPart
	ai := 0
	lit := ""
	flush := func() {
		if lit != "" {
			parts = append(parts, strPart{kind: 0, lit: lit})
			lit = ""
		}
	}
	for i := 0; i < len(format); i++ {
		c := format[i]
		if c != '%' {
			lit += format[i : i+1]
			continue
		}
		i++
		if i >= len(format) {
			panic(unsupported("bad format"))
		}
		if format[i] == '%' {
			lit += "%"
			continue
		}
		zero := false
		w := 0
		if format[i] == '0' {
			zero = true
			i++
		}
		for i < len(format) && isDigit(format[i]) {
			w = w*10 + int(format[i]-'0')
			i++
		}
		verb := format[i]
		if ai >= len(args) {
			panic(unsupported("sprintf: missing argument"))
		}
		a := args[ai]
		ai++
		if ifc, ok := a.(Iface); ok {
			a = ifc.v
		}
		if w > 0 && !zero {
			panic(unsupported("sprintf: space padding"))
		}
		flush()
		switch verb {
		case 'd', 'v', 's', 'x':
			switch x := a.(type) {
			case int64:
				if verb == 's' {
					panic(unsupported("%s of int"))
				}
				parts = append(parts, strPart{kind: 0, lit: fmtNum(x, w, verb == 'x')})
			case *Term:
				if x.sort == SBool {
					panic(unsupported("sprintf of symbolic bool"))
				}
				if verb == 's' {
					panic(unsupported("%s of int"))
				}
				parts = append(parts, strPart{kind: 1, num: x, w: w, hex: verb == 'x'})
			case string:
				if verb == 'd' || verb == 'x' || w > 0 {
					panic(unsupported("sprintf verb on string"))
				}
				parts = append(parts, strPart{kind: 0, lit: x})
			case *SymStr:
				if verb == 'd' || verb == 'x' || w > 0 {
					panic(unsupported("sprintf verb on string"))
				}
				parts = append(parts, x.parts...)
			case bool:
				parts = append(parts, strPart{kind: 0, lit: fmt.Sprint(x)})
			case float64:
				parts = append(parts, strPart{kind: 0, lit: fmt.Sprintf("%"+string(verb), x)})
			default:
				panic(unsupported(fmt.Sprintf("sprintf arg %T", a)))
			}
		default:
			panic(unsupported("sprintf verb %" + string(verb)))
		}
	}
	flush()
	if ai != len(args) {
		panic(unsupported("sprintf: extra arguments"))
	}
	return m.mkStr(parts)
}

// ---------- strings.* / strconv.* externals ----------

func (m *Machine) stringsFn(name string, args []value, site ssa.Instruction) value {
	switch name {
	case "Compare":
		return m.strCompare(args[0], args[1])
	case "HasPrefix":
		if p, ok := args[1].(string); ok {
			if s, ok := args[0].(*SymStr); ok {
				if n, ok := m.strLen(s).(int64); ok && int64(len(p)) <= n {
					pre := m.strSlice(s, 0, int64(len(p)), site)
					return m.strEq(pre, p)
				}
			}
		}
	}
	f := map[string]func(v []value) value{
		"Compare":   func(v []value) value { return int64(strings.Compare(v[0].(string), v[1].(string))) },
		"Contains":  func(v []value) value { return strings.Contains(v[0].(string), v[1].(string)) },
		"Index":     func(v []value) value { return int64(strings.Index(v[0].(string), v[1].(string))) },
		"LastIndex": func(v []value) value { return int64(strings.LastIndex(v[0].(string), v[1].(string))) },
		"HasPrefix": func(v []value) value { return strings.HasPrefix(v[0].(string), v[1].(string)) },
		"HasSuffix": func(v []value) value { return strings.HasSuffix(v[0].(string), v[1].(string)) },
		"ToUpper":   func(v []value) value { return strings.ToUpper(v[0].(string)) },
		"ToLower":   func(v []value) value { return strings.ToLower(v[0].(string)) },
		"TrimSpace": func(v []value) value { return strings.TrimSpace(v[0].(string)) },
		"Replace": func(v []value) value {
			return strings.Replace(v[0].(string), v[1].(string), v[2].(string), int(v[3].(int64)))
		},
		"ReplaceAll": func(v []value) value { return strings.ReplaceAll(v[0].(string), v[1].(string), v[2].(string)) },
		"Repeat":     func(v []value) value { return strings.Repeat(v[0].(string), int(v[1].(int64))) },
		"SplitN": func(v []value) value {
			return strSliceV(strings.SplitN(v[0].(string), v[1].(string), int(v[2].(int64))))
		},
		"Fields":       func(v []value) value { return strSliceV(strings.Fields(v[0].(string))) },
		"Count":        func(v []value) value { return int64(strings.Count(v[0].(string), v[1].(string))) },
		"EqualFold":    func(v []value) value { return strings.EqualFold(v[0].(string), v[1].(string)) },
		"TrimPrefix":   func(v []value) value { return strings.TrimPrefix(v[0].(string), v[1].(string)) },
		"TrimSuffix":   func(v []value) value { return strings.TrimSuffix(v[0].(string), v[1].(string)) },
		"Trim":         func(v []value) value { return strings.Trim(v[0].(string), v[1].(string)) },
		"TrimLeft":     func(v []value) value { return strings.TrimLeft(v[0].(string), v[1].(string)) },
		"TrimRight":    func(v []value) value { return strings.TrimRight(v[0].(string), v[1].(string)) },
		"ContainsAny":  func(v []value) value { return strings.ContainsAny(v[0].(string), v[1].(string)) },
		"ContainsRune": func(v []value) value { return strings.ContainsRune(v[0].(string), rune(v[1].(int64))) },
		"IndexByte":    func(v []value) value { return int64(strings.IndexByte(v[0].(string), byte(v[1].(int64)))) },
		"IndexRune":    func(v []value) value { return int64(strings.IndexRune(v[0].(string), rune(v[1].(int64)))) },
		"Title":        func(v []value) value { return strings.Title(v[0].(string)) },
		"Join": func(v []value) value {
			sl, ok := v[0].(SliceV)
			if !ok {
				panic(unsupported("strings.Join on a symbolic slice"))
			}
			ps := make([]string, sl.len)
			for i := 0; i < sl.len; i++ {
				c, ok := sl.arr[sl.off+i].(string)
				if !ok {
					panic(unsupported("strings.Join with a symbolic element"))
				}
				ps[i] = c
			}
			return strings.Join(ps, v[1].(string))
		},
		"Split": func(v []value) value {
			ps := strings.Split(v[0].(string), v[1].(string))
			arr := make([]value, len(ps))
			for i, p := range ps {
				arr[i] = p
			}
			return SliceV{arr: arr, len: len(arr), cap: len(arr)}
		},
	}[name]
	if f == nil {
		panic(unsupported("strings." + name))
	}
	return m.liftStr(args, f)
}

func (m *Machine) strconvFn(name string, args []value, site ssa.Instruction) value {
	switch name {
	case "ParseInt":
		return m.liftStr(args, func(v []value) value {
			n, err := strconv.ParseInt(v[0].(string), int(v[1].(int64)), int(v[2].(int64)))
			if err != nil {
				panic(unsupported("strconv.ParseInt error path: " + err.Error()))
			}
			return Tuple{n, Iface{}}
		})
	case "Atoi":
		return m.liftStr(args, func(v []value) value {
			n, err := strconv.Atoi(v[0].(string))
			if err != nil {
				panic(unsupported("strconv.Atoi error path"))
			}
			return Tuple{int64(n), Iface{}}
		})
	case "Itoa":
		return m.sprintf("%d", args)
	}
	panic(unsupported("strconv." + name))
}

func strSliceV(ps []string) SliceV {
	arr := make([]value, len(ps))
	for i, p := range ps {
		arr[i] = p
	}
	return SliceV{arr: arr, len: len(arr), cap: len(arr)}
}
