package main

// Intrinsics of the harness vocabulary, stubs and native summaries.

import (
	"fmt"
	"go/types"
	"math"
	"os"
	"strings"
	"time"

	"github.com/6tail/lunar-go/ShouXingUtil"
	"golang.org/x/tools/go/ssa"
)

type externFn func(m *Machine, args []value, site ssa.Instruction) value

func sitePos(m *Machine, site ssa.Instruction) string {
	if site == nil {
		return "?"
	}
	return posOf(m.prog, site.Pos())
}

func argStr(v value) string {
	s, ok := v.(string)
	if !ok {
		panic(engineError{"intrinsic name/id must be a constant string"})
	}
	return s
}

func argInt(v value) int64 {
	switch v := v.(type) {
	case int64:
		return v
	case *Term:
		if v.IsConst() {
			return v.k
		}
	}
	panic(engineError{"intrinsic bound must be concrete"})
}

func (m *Machine) freshName(base string) string {
	n := m.varSeq[base]
	m.varSeq[base] = n + 1
	if n == 0 {
		return "v_" + base
	}
	return fmt.Sprintf("v_%s_%d", base, n)
}

func (m *Machine) installExterns() {
	pkg := "github.com/6tail/lunar-go/"
	ex := map[string]externFn{}
	m.extern = ex
	intr := map[string]externFn{
		"vInt": func(m *Machine, a []value, site ssa.Instruction) value {
			name := m.freshName(argStr(a[0]))
			lo, hi := argInt(a[1]), argInt(a[2])
			if v, ok := m.unit.Concrete[name]; ok {
				return v
			}
			if lo == hi {
				return lo
			}
			m.unit.varRanges[name] = [2]int64{lo, hi}
			return m.tb.Var(name, SInt, lo, hi)
		},
		"vBool": func(m *Machine, a []value, site ssa.Instruction) value {
			name := m.freshName(argStr(a[0]))
			if v, ok := m.unit.Concrete[name]; ok {
				return v != 0
			}
			m.unit.varRanges[name] = [2]int64{0, 1}
			return m.tb.Var(name, SBool, 0, 1)
		},
		"vParam": func(m *Machine, a []value, site ssa.Instruction) value {
			n := argStr(a[0])
			v, ok := m.unit.Params[n]
			if !ok {
				panic(engineError{"missing unit parameter " + n})
			}
			return v
		},
		"vHasParam": func(m *Machine, a []value, site ssa.Instruction) value {
			_, ok := m.unit.Params[argStr(a[0])]
			return ok
		},
		"vAssume": func(m *Machine, a []value, site ssa.Instruction) value {
			m.assume(a[0])
			return nil
		},
		"vAssert": func(m *Machine, a []value, site ssa.Instruction) value {
			m.assert(argStr(a[0]), a[1], sitePos(m, site))
			return nil
		},
		"vReach": func(m *Machine, a []value, site ssa.Instruction) value {
			m.ex.Reached[argStr(a[0])]++
			return nil
		},
		"vPanics": func(m *Machine, a []value, site ssa.Instruction) (res value) {
			defer func() {
				if r := recover(); r != nil {
					if tp, ok := r.(targetPanic); ok {
						m.unit.lastPanic = tp.msg + " @" + tp.pos
						res = true
						return
					}
					panic(r)
				}
			}()
			m.call(a[0], nil, site)
			return false
		},
		"vEach": func(m *Machine, a []value, site ssa.Instruction) value {
			m.ex.each(func() { m.call(a[0], nil, site) })
			return nil
		},
		"vSharedWrites": func(m *Machine, a []value, site ssa.Instruction) value {
			// number of writes, performed while no mutex is held, to memory that existed before f started:
			// two goroutines running f on the same object race on each of them
			m.freshOn++
			if m.freshOn == 1 {
				m.fresh = map[*value]int{}
				m.freshMaps = map[*MapV]int{}
			}
			entry := m.serial
			mark := len(m.trail)
			held0 := m.locksHeld
			func() {
				defer func() { m.freshOn-- }()
				m.call(a[0], nil, site)
			}()
			n := int64(0)
			seen := map[*value]bool{}
			for _, u := range m.trail[mark:] {
				if u.kind == 4 {
					continue
				}
				if u.held > held0 {
					continue // written under a lock acquired inside f
				}
				if u.kind != 0 {
					if sr, ok := m.freshMaps[u.mp]; ok && sr > entry {
						continue
					}
					n++
					continue
				}
				if sr, ok := m.fresh[u.p]; ok && sr > entry {
					continue
				}
				if !seen[u.p] {
					seen[u.p] = true
					n++
				}
			}
			return n
		},
		"vNoMerge": func(m *Machine, a []value, site ssa.Instruction) value {
			old := m.noMerge
			m.noMerge = true
			defer func() { m.noMerge = old }()
			m.call(a[0], nil, site)
			return nil
		},
		"vSkipTables": func(m *Machine, a []value, site ssa.Instruction) value {
			// cut: (*LunarYear).compute (the astronomy) is not executed inside f, so the year may stay symbolic;
			// only the fields NewLunarYear sets itself (year, ganIndex, zhiIndex) are meaningful on the result
			old := m.skipTables
			m.skipTables = true
			defer func() { m.skipTables = old }()
			m.call(a[0], nil, site)
			return nil
		},
		"vApproxFloats": func(m *Machine, a []value, site ssa.Instruction) value {
			// inside f inexact float64 operations are over-approximated with a sound error bound (fapx.go)
			old := m.apxFloats
			m.apxFloats = true
			defer func() { m.apxFloats = old }()
			m.call(a[0], nil, site)
			return nil
		},
		"vApxWithin": func(m *Machine, a []value, site ssa.Instruction) value {
			// |x - num/den| <= tol * 2^-40, decided from the bound carried by x
			return m.apxWithin(a[0], a[1], argInt(a[2]), argInt(a[3]))
		},
		"vApxFloat": func(m *Machine, a []value, site ssa.Instruction) value {
			// an arbitrary float64 within tol * 2^-40 of num/den
			var num *Term
			switch x := a[0].(type) {
			case int64:
				num = m.tb.Int(x)
			case *Term:
				num = x
			default:
				panic(engineError{"vApxFloat"})
			}
			return &FApx{num: num, den: argInt(a[1]), err: m.tb.Int(argInt(a[2]))}
		},
		"vFork": func(m *Machine, a []value, site ssa.Instruction) value {
			switch c := a[0].(type) {
			case bool:
				return c
			case *Term:
				return m.decide(c)
			}
			panic(engineError{"vFork"})
		},
		"vConcretize": func(m *Machine, a []value, site ssa.Instruction) value {
			switch c := a[0].(type) {
			case int64:
				return c
			case *Term:
				return m.concretize(c, site.Pos(), "vConcretize")
			}
			panic(engineError{"vConcretize"})
		},
		"vIsSymbolic": func(m *Machine, a []value, site ssa.Instruction) value {
			return isSymbolic(a[0])
		},
		"vNative": func(m *Machine, a []value, site ssa.Instruction) value { return false },
		"vDump": func(m *Machine, a []value, site ssa.Instruction) value {
			fmt.Fprintf(os.Stderr, "DUMP %v = %v   [pos=%d]\n", a[0], describe(a[1].(Iface).v), m.ex.pos)
			return nil
		},
		"vNote": func(m *Machine, a []value, site ssa.Instruction) value {
			return nil
		},
	}
	for n, f := range intr {
		ex["intrinsic:"+n] = f
	}
	// fmt / strings / strconv / math
	ex["fmt.Sprintf"] = func(m *Machine, a []value, site ssa.Instruction) value {
		f := argStr(a[0])
		s := a[1].(SliceV)
		args := make([]value, s.len)
		copy(args, s.arr[s.off:s.off+s.len])
		return m.sprintf(f, args)
	}
	for _, n := range []string{"Compare", "Contains", "Index", "LastIndex", "HasPrefix", "HasSuffix", "ToUpper", "ToLower", "Replace", "ReplaceAll", "Split", "TrimSpace", "Repeat",
		"SplitN", "Fields", "Join", "Count", "EqualFold", "TrimPrefix", "TrimSuffix", "Trim", "TrimLeft", "TrimRight", "ContainsRune", "ContainsAny", "IndexByte", "IndexRune", "Title"} {
		n := n
		ex["strings."+n] = func(m *Machine, a []value, site ssa.Instruction) value { return m.stringsFn(n, a, site) }
	}
	for _, n := range []string{"ParseInt", "Atoi", "Itoa"} {
		n := n
		ex["strconv."+n] = func(m *Machine, a []value, site ssa.Instruction) value { return m.strconvFn(n, a, site) }
	}
	for _, n := range []string{"Floor", "Ceil", "Round", "Abs", "Trunc", "Sin", "Cos", "Sqrt", "Tan", "Atan", "Mod", "Pow", "Atan2", "Max", "Min"} {
		n := n
		ex["math."+n] = func(m *Machine, a []value, site ssa.Instruction) value { return m.mathFn(n, a, site) }
	}
	// astronomy: native, concrete arguments only
	conc := func(a value, what string) float64 {
		f, ok := a.(float64)
		if !ok {
			panic(unsupported("ShouXingUtil." + what + " with a symbolic argument (astronomy is only run natively on concrete input)"))
		}
		return f
	}
	native := func(name string, f func(float64) float64) externFn {
		return func(m *Machine, a []value, site ssa.Instruction) (res value) {
			m.unit.native["ShouXingUtil."+name]++
			x := conc(a[0], name)
			defer func() {
				if r := recover(); r != nil {
					panic(targetPanic{v: fmt.Sprint(r), msg: fmt.Sprintf("panic inside ShouXingUtil.%s(%v): %v", name, x, r), pos: sitePos(m, site)})
				}
			}()
			return f(x)
		}
	}
	ex[pkg+"ShouXingUtil.CalcShuo"] = native("CalcShuo", ShouXingUtil.CalcShuo)
	ex[pkg+"ShouXingUtil.CalcQi"] = native("CalcQi", ShouXingUtil.CalcQi)
	ex[pkg+"ShouXingUtil.QiAccurate2"] = native("QiAccurate2", ShouXingUtil.QiAccurate2)
	// sync.Mutex: a held flag in the first field
	ex["(*sync.Mutex).Lock"] = func(m *Machine, a []value, site ssa.Instruction) value {
		p := a[0].(*value)
		s := (*p).(Struct)
		if h, _ := s[0].(int64); h != 0 {
			panic(targetPanic{v: "DEADLOCK", msg: "DEADLOCK: Lock of a mutex that is already held (never released on an earlier path)", pos: sitePos(m, site)})
		}
		m.trail = append(m.trail, undo{kind: 4, old: int64(m.locksHeld)})
		m.locksHeld++
		m.store(&s[0], int64(1))
		m.unit.events = append(m.unit.events, "Lock")
		// environment model (C09): other goroutines may have run their critical sections since this
		// goroutine last held the lock; the harness hook re-chooses the protected state within its invariant
		if m.unit.Params["ENV"] == 1 && !m.inHook {
			if pk := m.prog.ImportedPackage("github.com/6tail/lunar-go/calendar"); pk != nil {
				if hook := pk.Func("vhOnLock"); hook != nil {
					m.inHook = true
					defer func() { m.inHook = false }()
					m.callFn(hook, nil, nil, site)
				}
			}
		}
		return nil
	}
	ex["(*sync.Mutex).TryLock"] = func(m *Machine, a []value, site ssa.Instruction) value {
		p := a[0].(*value)
		s := (*p).(Struct)
		if h, _ := s[0].(int64); h != 0 {
			return false
		}
		m.trail = append(m.trail, undo{kind: 4, old: int64(m.locksHeld)})
		m.locksHeld++
		m.store(&s[0], int64(1))
		return true
	}
	ex["(*sync.Mutex).Unlock"] = func(m *Machine, a []value, site ssa.Instruction) value {
		p := a[0].(*value)
		s := (*p).(Struct)
		if h, _ := s[0].(int64); h == 0 {
			panic(targetPanic{v: "unlock of unlocked mutex", msg: "sync: unlock of unlocked mutex", pos: sitePos(m, site)})
		}
		m.store(&s[0], int64(0))
		m.trail = append(m.trail, undo{kind: 4, old: int64(m.locksHeld)})
		m.locksHeld--
		m.unit.events = append(m.unit.events, "Unlock")
		return nil
	}
	// time
	ex["time.Now"] = func(m *Machine, a []value, site ssa.Instruction) value { return m.now }
	ex["(time.Time).Local"] = func(m *Machine, a []value, site ssa.Instruction) value {
		if t, ok := a[0].(time.Time); ok {
			return t.Local()
		}
		return a[0]
	}
	// time.Date with symbolic fields: TimeV (see timeDate); native time.Time values (time.Now) keep the host's answers
	ex["time.Date"] = func(m *Machine, a []value, site ssa.Instruction) value { return m.timeDate(a) }
	field := func(name string, nat func(t time.Time) int, sym func(t *TimeV) value) {
		ex["(time.Time)."+name] = func(m *Machine, a []value, site ssa.Instruction) value {
			switch t := a[0].(type) {
			case time.Time:
				return int64(nat(t))
			case *TimeV:
				return sym(t)
			}
			panic(unsupported("time.Time." + name + " on an unmodelled value"))
		}
	}
	field("Year", func(t time.Time) int { return t.Year() }, func(t *TimeV) value { return t.y })
	field("Month", func(t time.Time) int { return int(t.Month()) }, func(t *TimeV) value { return t.mo })
	field("Day", func(t time.Time) int { return t.Day() }, func(t *TimeV) value { return t.d })
	field("Hour", func(t time.Time) int { return t.Hour() }, func(t *TimeV) value { return t.h })
	field("Minute", func(t time.Time) int { return t.Minute() }, func(t *TimeV) value { return t.mi })
	field("Second", func(t time.Time) int { return t.Second() }, func(t *TimeV) value { return t.s })
	ex["(time.Time).Format"] = func(m *Machine, a []value, site ssa.Instruction) value {
		layout, ok := a[1].(string)
		if !ok {
			panic(unsupported("time.Time.Format with a symbolic layout"))
		}
		switch t := a[0].(type) {
		case time.Time:
			return t.Format(layout)
		case *TimeV:
			return m.timeFormat(t, layout)
		}
		panic(unsupported("time.Time.Format on an unmodelled value"))
	}
}

func (m *Machine) lookupExtern(fn *ssa.Function) (externFn, bool) {
	name := fn.String()
	if f, ok := m.extern[name]; ok {
		return f, true
	}
	// harness intrinsics: package-level functions vXxx declared in zz_vh_ files
	n := fn.Name()
	if len(n) > 1 && n[0] == 'v' && n[1] >= 'A' && n[1] <= 'Z' && fn.Signature.Recv() == nil {
		if f, ok := m.extern["intrinsic:"+n]; ok {
			return f, true
		}
	}
	return nil, false
}

var _ = math.Pi
var _ = strings.Compare
var _ = types.Typ

// TimeV: the result of time.Date(y, mo, d, h, mi, s, 0, loc) with possibly symbolic fields, AFTER Go's normalisation.
// Modelled for fields inside their usual ranges (month 1..12, day 1..31, hour 0..23, minute / second 0..59, nsec 0):
// the only normalisation left is a day beyond the length of its month in the PROLEPTIC GREGORIAN calendar, which Go
// carries into the next month (e.g. 29 February of a year that is a leap year only in the Julian calendar).
type TimeV struct{ y, mo, d, h, mi, s value }

func (m *Machine) timeDate(a []value) value {
	tb := m.tb
	term := func(v value) *Term {
		switch x := v.(type) {
		case int64:
			return tb.Int(x)
		case *Term:
			return x
		}
		panic(unsupported("time.Date argument"))
	}
	inRange := func(v value, lo, hi int64) {
		t := term(v)
		if t.lo < lo || t.hi > hi {
			panic(unsupported("time.Date with a field outside its usual range (normalisation not modelled)"))
		}
	}
	if ns, ok := a[6].(int64); !ok || ns != 0 {
		panic(unsupported("time.Date with nanoseconds"))
	}
	inRange(a[1], 1, 12)
	inRange(a[2], 1, 31)
	inRange(a[3], 0, 23)
	inRange(a[4], 0, 59)
	inRange(a[5], 0, 59)
	y, mo, d := term(a[0]), term(a[1]), term(a[2])
	if y.lo < 1 || y.hi > 9999 {
		panic(unsupported("time.Date with a year outside 1..9999"))
	}
	// proleptic Gregorian month length
	leap := tb.And(tb.Eq(tb.Rem(y, tb.Int(4)), tb.Int(0)), tb.Or(tb.Not(tb.Eq(tb.Rem(y, tb.Int(100)), tb.Int(0))), tb.Eq(tb.Rem(y, tb.Int(400)), tb.Int(0))))
	feb := tb.Ite(leap, tb.Int(29), tb.Int(28))
	short := tb.Or(tb.Eq(mo, tb.Int(4)), tb.Eq(mo, tb.Int(6)), tb.Eq(mo, tb.Int(9)), tb.Eq(mo, tb.Int(11)))
	ln := tb.Ite(tb.Eq(mo, tb.Int(2)), feb, tb.Ite(short, tb.Int(30), tb.Int(31)))
	over := tb.Lt(ln, d)
	// December has 31 days, so an overflow never changes the year
	nmo := tb.Ite(over, tb.Add(mo, tb.Int(1)), mo)
	nd := tb.Ite(over, tb.Sub(d, ln), d)
	return &TimeV{y: m.simp(y), mo: m.simp(nmo), d: m.simp(nd), h: a[3], mi: a[4], s: a[5]}
}

func (m *Machine) timeFormat(t *TimeV, layout string) value {
	format := ""
	var args []value
	for i := 0; i < len(layout); {
		switch {
		case strings.HasPrefix(layout[i:], "2006"):
			format += "%04d"
			args = append(args, t.y)
			i += 4
		case strings.HasPrefix(layout[i:], "01"):
			format += "%02d"
			args = append(args, t.mo)
			i += 2
		case strings.HasPrefix(layout[i:], "02"):
			format += "%02d"
			args = append(args, t.d)
			i += 2
		case strings.HasPrefix(layout[i:], "15"):
			format += "%02d"
			args = append(args, t.h)
			i += 2
		case strings.HasPrefix(layout[i:], "04"):
			format += "%02d"
			args = append(args, t.mi)
			i += 2
		case strings.HasPrefix(layout[i:], "05"):
			format += "%02d"
			args = append(args, t.s)
			i += 2
		default:
			c := layout[i]
			if (c >= '0' && c <= '9') || (c >= 'A' && c <= 'Z') || (c >= 'a' && c <= 'z') || c == '%' {
				panic(unsupported("time.Time.Format layout element not modelled: " + layout[i:]))
			}
			format += layout[i : i+1]
			i++
		}
	}
	return m.sprintf(format, args)
}
