package main

// Intrinsics of the harness vocabulary, stubs and native summaries.

import (
	"fmt"
	"go/types"
	"math"
	"os"
	"strings"
	"time"

	"github.com/6tail/lunar-go/ShouXingUtil"
	"golang.org/x/tools/go/ssa"
)

type externFn func(m *Machine, args []value, site ssa.Instruction) value

func sitePos(m *Machine, site ssa.Instruction) string {
	if site == nil {
		return "?"
	}
	return posOf(m.prog, site.Pos())
}

func argStr(v value) string {
	s, ok := v.(string)
	if !ok {
		panic(engineError{"intrinsic name/id must be a constant string"})
	}
	return s
}

func argInt(v value) int64 {
	switch v := v.(type) {
	case int64:
		return v
	case *Term:
		if v.IsConst() {
			return v.k
		}
	}
	panic(engineError{"intrinsic bound must be concrete"})
}

func (m *Machine) freshName(base string) string {
	n := m.varSeq[base]
	m.varSeq[base] = n + 1
	if n == 0 {
		return "v_" + base
	}
	return fmt.Sprintf("v_%s_%d", base, n)
}

func (m *Machine) installExterns() {
	pkg := "github.com/6tail/lunar-go/"
	ex := map[string]externFn{}
	m.extern = ex
	intr := map[string]externFn{
		"vInt": func(m *Machine, a []value, site ssa.Instruction) value {
			name := m.freshName(argStr(a[0]))
			lo, hi := argInt(a[1]), argInt(a[2])
			if v, ok := m.unit.Concrete[name]; ok {
				return v
			}
			if lo == hi {
				return lo
			}
			m.unit.varRanges[name] = [2]int64{lo, hi}
			return m.tb.Var(name, SInt, lo, hi)
		},
		"vBool": func(m *Machine, a []value, site ssa.Instruction) value {
			name := m.freshName(argStr(a[0]))
			if v, ok := m.unit.Concrete[name]; ok {
				return v != 0
			}
			m.unit.varRanges[name] = [2]int64{0, 1}
			return m.tb.Var(name, SBool, 0, 1)
		},
		"vParam": func(m *Machine, a []value, site ssa.Instruction) value {
			n := argStr(a[0])
			v, ok := m.unit.Params[n]
			if !ok {
				panic(engineError{"missing unit parameter " + n})
			}
			return v
		},
		"vHasParam": func(m *Machine, a []value, site ssa.Instruction) value {
			_, ok := m.unit.Params[argStr(a[0])]
			return ok
		},
		"vAssume": func(m *Machine, a []value, site ssa.Instruction) value {
			m.assume(a[0])
			return nil
		},
		"vAssert": func(m *Machine, a []value, site ssa.Instruction) value {
			m.assert(argStr(a[0]), a[1], sitePos(m, site))
			return nil
		},
		"vReach": func(m *Machine, a []value, site ssa.Instruction) value {
			m.ex.Reached[argStr(a[0])]++
			return nil
		},
		"vPanics": func(m *Machine, a []value, site ssa.Instruction) (res value) {
			defer func() {
				if r := recover(); r != nil {
					if tp, ok := r.(targetPanic); ok {
						m.unit.lastPanic = tp.msg + " @" + tp.pos
						res = true
						return
					}
					panic(r)
				}
			}()
			m.call(a[0], nil, site)
			return false
		},
		"vEach": func(m *Machine, a []value, site ssa.Instruction) value {
			m.ex.each(func() { m.call(a[0], nil, site) })
			return nil
		},
		"vSharedWrites": func(m *Machine, a []value, site ssa.Instruction) value {
			// number of writes, performed while no mutex is held, to memory that existed before f started:
			// two goroutines running f on the same object race on each of them
			m.freshOn++
			if m.freshOn == 1 {
				m.fresh = map[*value]int{}
				m.freshMaps = map[*MapV]int{}
			}
			entry := m.serial
			mark := len(m.trail)
			held0 := m.locksHeld
			func() {
				defer func() { m.freshOn-- }()
				m.call(a[0], nil, site)
			}()
			n := int64(0)
			seen := map[*value]bool{}
			for _, u := range m.trail[mark:] {
				if u.kind == 4 {
					continue
				}
				if u.held > held0 {
					continue // written under a lock acquired inside f
				}
				if u.kind != 0 {
					if sr, ok := m.freshMaps[u.mp]; ok && sr > entry {
						continue
					}
					n++
					continue
				}
				if sr, ok := m.fresh[u.p]; ok && sr > entry {
					continue
				}
				if !seen[u.p] {
					seen[u.p] = true
					n++
				}
			}
			return n
		},
		"vNoMerge": func(m *Machine, a []value, site ssa.Instruction) value {
			old := m.noMerge
			m.noMerge = true
			defer func() { m.noMerge = old }()
			m.call(a[0], nil, site)
			return nil
		},
		"vSkipTables": func(m *Machine, a []value, site ssa.Instruction) value {
			// cut: (*LunarYear).compute (the astronomy) is not executed inside f, so the year may stay symbolic;
			// only the fields NewLunarYear sets itself (year, ganIndex, zhiIndex) are meaningful on the result
			old := m.skipTables
			m.skipTables = true
			defer func() { m.skipTables = old }()
			m.call(a[0], nil, site)
			return nil
		},
		"vApproxFloats": func(m *Machine, a []value, site ssa.Instruction) value {
			// inside f inexact float64 operations are over-approximated with a sound error bound (fapx.go)
			old := m.apxFloats
			m.apxFloats = true
			defer func() { m.apxFloats = old }()
			m.call(a[0], nil, site)
			return nil
		},
		"vApxWithin": func(m *Machine, a []value, site ssa.Instruction) value {
			// |x - num/den| <= tol * 2^-40, decided from the bound carried by x
			return m.apxWithin(a[0], a[1], argInt(a[2]), argInt(a[3]))
		},
		"vApxFloat": func(m *Machine, a []value, site ssa.Instruction) value {
			// an arbitrary float64 within tol * 2^-40 of num/den
			var num *Term
			switch x := a[0].(type) {
			case int64:
				num = m.tb.Int(x)
			case *Term:
				num = x
			default:
				panic(engineError{"vApxFloat"})
			}
			return &FApx{num: num, den: argInt(a[1]), err: m.tb.Int(argInt(a[2]))}
		},
		"vFork": func(m *Machine, a []value, site ssa.Instruction) value {
			switch c := a[0].(type) {
			case bool:
				return c
			case *Term:
				return m.decide(c)
			}
			panic(engineError{"vFork"})
		},
		"vConcretize": func(m *Machine, a []value, site ssa.Instruction) value {
			switch c := a[0].(type) {
			case int64:
				return c
			case *Term:
				return m.concretize(c, site.Pos(), "vConcretize")
			}
			panic(engineError{"vConcretize"})
		},
		"vIsSymbolic": func(m *Machine, a []value, site ssa.Instruction) value {
			return isSymbolic(a[0])
		},
		"vNative": func(m *Machine, a []value, site ssa.Instruction) value { return false },
		"vDump": func(m *Machine, a []value, site ssa.Instruction) value {
			fmt.Fprintf(os.Stderr, "DUMP %v = %v   [pos=%d]\n", a[0], describe(a[1].(Iface).v), m.ex.pos)
			return nil
		},
		"vNote": func(m *Machine, a []value, site ssa.Instruction) value {
			return nil
		},
	}
	for n, f := range intr {
		ex["intrinsic:"+n] = f
	}
	// fmt / strings / strconv / math
	ex["fmt.Sprintf"] = func(m *Machine, a []value, site ssa.Instruction) value {
		f := argStr(a[0])
		s := a[1].(SliceV)
		args := make([]value, s.len)
		copy(args, s.arr[s.off:s.off+s.len])
		return m.sprintf(f, args)
	}
	for _, n := range []string{"Compare", "Contains", "Index", "LastIndex", "HasPrefix", "HasSuffix", "ToUpper", "ToLower", "Replace", "ReplaceAll", "Split", "TrimSpace", "Repeat",
		"SplitN", "Fields", "Join", "Count", "EqualFold", "TrimPrefix", "TrimSuffix", "Trim", "TrimLeft", "TrimRight", "ContainsRune", "ContainsAny", "IndexByte", "IndexRune", "Title"} {
		n := n
		ex["strings."+n] = func(m *Machine, a []value, site ssa.Instruction) value { return m.stringsFn(n, a, site) }
	}
	for _, n := range []string{"ParseInt", "Atoi", "Itoa"} {
		n := n
		ex["strconv."+n] = func(m *Machine, a []value, site ssa.Instruction) value { return m.strconvFn(n, a, site) }
	}
	for _, n := range []string{"Floor", "Ceil", "Round", "Abs", "Trunc", "Sin", "Cos", "Sqrt", "Tan", "Atan", "Mod", "Pow", "Atan2", "Max", "Min"} {
		n := n
		ex["math."+n] = func(m *Machine, a []value, site ssa.Instruction) value { return m.mathFn(n, a, site) }
	}
	// astronomy: native, concrete arguments only
	conc := func(a value, what string) float64 {
		f, ok := a.(float64)
		if !ok {
			panic(unsupported("ShouXingUtil." + what + " with a symbolic argument (astronomy is only run natively on concrete input)"))
		}
		return f
	}
	native := func(name string, f func(float64) float64) externFn {
		return func(m *Machine, a []value, site ssa.Instruction) (res value) {
			m.unit.native["ShouXingUtil."+name]++
			x := conc(a[0], name)
			defer func() {
				if r := recover(); r != nil {
					panic(targetPanic{v: fmt.Sprint(r), msg: fmt.Sprintf("panic inside ShouXingUtil.%s(%v): %v", name, x, r), pos: sitePos(m, site)})
				}
			}()
			return f(x)
		}
	}
	ex[pkg+"ShouXingUtil.CalcShuo"] = native("CalcShuo", ShouXingUtil.CalcShuo)
	ex[pkg+"ShouXingUtil.CalcQi"] = native("CalcQi", ShouXingUtil.CalcQi)
	ex[pkg+"ShouXingUtil.QiAccurate2"] = native("QiAccurate2", ShouXingUtil.QiAccurate2)
	// sync.Mutex: a held flag in the first field
	ex["(*sync.Mutex).Lock"] = func(m *Machine, a []value, site ssa.Instruction) value {
		p := a[0].(*value)
		s := (*p).(Struct)
		if h, _ := s[0].(int64); h != 0 {
			panic(targetPanic{v: "DEADLOCK", msg: "DEADLOCK: Lock of a mutex that is already held (never released on an earlier path)", pos: sitePos(m, site)})
		}
		m.trail = append(m.trail, undo{kind: 4, old: int64(m.locksHeld)})
		m.locksHeld++
		m.store(&s[0], int64(1))
		m.unit.events = append(m.unit.events, "Lock")
		// environment model (C09): other goroutines may have run their critical sections since this
		// goroutine last held the lock; the harness hook re-chooses the protected state within its invariant
		if m.unit.Params["ENV"] == 1 && !m.inHook {
			if pk := m.prog.ImportedPackage("github.com/6tail/lunar-go/calendar"); pk != nil {
				if hook := pk.Func("vhOnLock"); hook != nil {
					m.inHook = true
					defer func() { m.inHook = false }()
					m.callFn(hook, nil, nil, site)
				}
			}
		}
		return nil
	}
	ex["(*sync.Mutex).TryLock"] = func(m *Machine, a []value, site ssa.Instruction) value {
		p := a[0].(*value)
		s := (*p).(Struct)
		if h, _ := s[0].(int64); h != 0 {
			return false
		}
		m.trail = append(m.trail, undo{kind: 4, old: int64(m.locksHeld)})
		m.locksHeld++
		m.store(&s[0], int64(1))
		return true
	}
	ex["(*sync.Mutex).Unlock"] = func(m *Machine, a []value, site ssa.Instruction) value {
		p := a[0].(*value)
		s := (*p).(Struct)
		if h, _ := s[0].(int64); h == 0 {
			panic(targetPanic{v: "unlock of unlocked mutex", msg: "sync: unlock of unlocked mutex", pos: sitePos(m, site)})
		}
		m.store(&s[0], int64(0))
		m.trail = append(m.trail, undo{kind: 4, old: int64(m.locksHeld)})
		m.locksHeld--
		m.unit.events = append(m.unit.events, "Unlock")
		return nil
	}
	// time
	ex["time.Now"] = func(m *Machine, a []value, site ssa.Instruction) value { return m.now }
	ex["(time.Time).Local"] = func(m *Machine, a []value, site ssa.Instruction) value { return a[0].(time.Time).Local() }
	ex["(time.Time).Year"] = func(m *Machine, a []value, site ssa.Instruction) value { return int64(a[0].(time.Time).Year()) }
	ex["(time.Time).Month"] = func(m *Machine, a []value, site ssa.Instruction) value { return int64(a[0].(time.Time).Month()) }
	ex["(time.Time).Day"] = func(m *Machine, a []value, site ssa.Instruction) value { return int64(a[0].(time.Time).Day()) }
	ex["(time.Time).Hour"] = func(m *Machine, a []value, site ssa.Instruction) value { return int64(a[0].(time.Time).Hour()) }
	ex["(time.Time).Minute"] = func(m *Machine, a []value, site ssa.Instruction) value {
		return int64(a[0].(time.Time).Minute())
	}
	ex["(time.Time).Second"] = func(m *Machine, a []value, site ssa.Instruction) value {
		return int64(a[0].(time.Time).Second())
	}
}

func (m *Machine) lookupExtern(fn *ssa.Function) (externFn, bool) {
	name := fn.String()
	if f, ok := m.extern[name]; ok {
		return f, true
	}
	// harness intrinsics: package-level functions vXxx declared in zz_vh_ files
	n := fn.Name()
	if len(n) > 1 && n[0] == 'v' && n[1] >= 'A' && n[1] <= 'Z' && fn.Signature.Recv() == nil {
		if f, ok := m.extern["intrinsic:"+n]; ok {
			return f, true
		}
	}
	return nil, false
}

var _ = math.Pi
var _ = strings.Compare
var _ = types.Typ
