package main

// Value model of the symbolic interpreter.
//
//   concrete scalars : bool, int64 (every integer kind), float64, string
//   symbolic scalars : *Term (Int or Bool), *FRat / *FTab (float64), *SymStr (string)
//   aggregates       : Struct, Array ([]value inline), *value pointers,
//                      SliceV, *MapV, Iface, *Closure, *ssa.Function, Tuple

import (
	"fmt"
	"go/types"
	"math"
	"strings"

	"golang.org/x/tools/go/ssa"
)

type value = any

type Struct []value
type Array []value
type Tuple []value

type SliceV struct {
	arr      []value // backing (shared)
	off, len int
	cap      int
	// set when the slice is []rune(s) / []byte(s) of a symbolic string and has only
	// been re-sliced since (the library never writes into such slices): lets
	// string(slice) be evaluated per alternative of the source string
	src      *SymStr
	srcBytes bool
	srcLo    int
}

type MapV struct {
	m     map[any]value // key: comparable concrete (int64/string/bool/float64 or Iface of those)
	order []any         // insertion order (deterministic iteration)
	nilm  bool
}

type Iface struct {
	t types.Type
	v value
}

type Closure struct {
	fn  *ssa.Function
	env []value
}

type Builtin struct{ name string }

// FRat is an exactly-represented float64 value num/den where den is a power
// of two and |num| < 2^53 on every model (checked through intervals).
type FRat struct {
	num *Term
	den int64
}

// FTab is a float64 that is a known function of one small-range Int term:
// value = vals[arg-lo].  All IEEE operations on it are computed natively per
// entry, so no rounding is modelled.
type FTab struct {
	arg  *Term
	lo   int64
	vals []float64
}

// SymStr: concatenation of parts.
type SymStr struct{ parts []strPart }

type strPart struct {
	lit  string // kind 0
	num  *Term  // kind 1: decimal rendering of num, min width w, zero padded if w>0
	w    int
	hex  bool
	alts []strAlt // kind 2: guarded alternatives (guards pairwise disjoint, exhaustive on path)
	kind int
}

type strAlt struct {
	g *Term
	s string
}

func (s *SymStr) String() string {
	var sb strings.Builder
	for _, p := range s.parts {
		switch p.kind {
		case 0:
			sb.WriteString(p.lit)
		case 1:
			fmt.Fprintf(&sb, "{%%0%dd:%v}", p.w, p.num)
		case 2:
			sb.WriteString("{")
			for i, a := range p.alts {
				if i > 0 {
					sb.WriteString("|")
				}
				sb.WriteString(a.s)
			}
			sb.WriteString("}")
		}
	}
	return sb.String()
}

func isSymbolic(v value) bool {
	switch v.(type) {
	case *Term, *FRat, *FTab, *FApx, *SymStr:
		return true
	}
	return false
}

func zero(t types.Type) value {
	switch t := t.Underlying().(type) {
	case *types.Basic:
		switch {
		case t.Info()&types.IsBoolean != 0:
			return false
		case t.Info()&types.IsInteger != 0:
			return int64(0)
		case t.Info()&types.IsFloat != 0:
			return float64(0)
		case t.Info()&types.IsString != 0:
			return ""
		case t.Kind() == types.UnsafePointer:
			return (*value)(nil)
		case t.Kind() == types.UntypedNil:
			return nil
		}
		panic(unsupported("zero of basic " + t.String()))
	case *types.Pointer:
		return (*value)(nil)
	case *types.Struct:
		s := make(Struct, t.NumFields())
		for i := range s {
			s[i] = zero(t.Field(i).Type())
		}
		return s
	case *types.Array:
		a := make(Array, t.Len())
		for i := range a {
			a[i] = zero(t.Elem())
		}
		return a
	case *types.Slice:
		return SliceV{}
	case *types.Map:
		return &MapV{nilm: true}
	case *types.Interface:
		return Iface{}
	case *types.Signature:
		return (*Closure)(nil)
	case *types.Chan:
		return nil
	case *types.Tuple:
		tu := make(Tuple, t.Len())
		for i := range tu {
			tu[i] = zero(t.At(i).Type())
		}
		return tu
	}
	panic(unsupported("zero of " + t.String()))
}

// copyVal copies aggregates stored inline (struct/array values have value
// semantics in Go).
func copyVal(v value) value {
	switch v := v.(type) {
	case Struct:
		c := make(Struct, len(v))
		for i := range v {
			c[i] = copyVal(v[i])
		}
		return c
	case Array:
		c := make(Array, len(v))
		for i := range v {
			c[i] = copyVal(v[i])
		}
		return c
	case Tuple:
		c := make(Tuple, len(v))
		copy(c, v)
		return c
	}
	return v
}

func isPow2(d int64) bool { return d > 0 && d&(d-1) == 0 }

// dyadic decomposition of a concrete float: f = num/den exactly.
func dyadic(f float64) (num, den int64, ok bool) {
	if math.IsNaN(f) || math.IsInf(f, 0) {
		return 0, 0, false
	}
	if f == 0 {
		return 0, 1, true
	}
	fr, exp := math.Frexp(f) // f = fr * 2^exp, 0.5<=|fr|<1
	m := int64(fr * (1 << 53))
	e := exp - 53
	for m%2 == 0 && e < 0 {
		m /= 2
		e++
	}
	if e >= 0 {
		if e > 9 {
			return 0, 0, false
		}
		return m << uint(e), 1, true
	}
	if -e > 40 {
		return 0, 0, false
	}
	return m, int64(1) << uint(-e), true
}
