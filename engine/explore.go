package main

// Path exploration: depth-first with re-execution (decisions are recorded and
// replayed), feasibility pruning by the solver, and state merging at the
// immediate post-dominator of symbolic branches.

import (
	"fmt"
	"go/token"
	"os"
	"runtime/debug"
	"sort"
	"strings"
	"time"

	"golang.org/x/tools/go/ssa"
)

var traceLvl = len(os.Getenv("SYMGO_TRACE"))

var debugModel = os.Getenv("SYMGO_DEBUG_MODEL") != ""

type decision struct {
	cond     *Term // constraint asserted is cond if val else not cond
	val      bool
	hasAlt   bool  // other side feasible and unexplored
	kind     uint8 // 0 branch, 1 assume/assert-continue, 2 no-merge marker
	altModel Model
	site     *ssa.If // for markers: the If whose region could not be merged
	seq      int     // dynamic occurrence number of that If on the path
}

type Obligation struct {
	ID      string `json:"id"`
	Kind    string `json:"kind"` // assert | overflow | unwind | nopanic
	Pos     string `json:"pos"`
	Result  string `json:"result"` // unsat | sat | unknown | trivial
	Model   Model  `json:"model,omitempty"`
	PathLen int    `json:"path_len"`
	Msg     string `json:"msg,omitempty"`
}

type Explorer struct {
	m            *Machine
	dec          []decision
	pos          int
	baseLevel    int
	lastDecision bool
	model        Model
	modelOK      bool
	// results
	Paths         int
	Obls          []Obligation
	Reached       map[string]int
	FeasQueries   int
	AssertQueries int
	Aborted       int
	NonTrivial    int
	Merges        int
	MergeFails    int
	Samples       []string
	maxPaths      int
	noMergeIf     map[*ssa.If]bool
	trivialOK     int
	unknownFeas   int
	rangeFacts    map[*Term][3]int64
	failCount     int   // merge failures so far
	failBase      []int // failCount at entry of each active region exploration
	bseq          int   // number of symbolic branches met so far on the current path (regions count once)
}

func newExplorer(m *Machine) *Explorer {
	return &Explorer{m: m, Reached: map[string]int{}, maxPaths: 200000, noMergeIf: map[*ssa.If]bool{}}
}

func (e *Explorer) pc() []*Term {
	var ts []*Term
	for _, d := range e.dec[:e.pos] {
		if d.kind == 2 {
			continue
		}
		if d.val {
			ts = append(ts, d.cond)
		} else {
			ts = append(ts, e.m.tb.Not(d.cond))
		}
	}
	return ts
}

func (e *Explorer) pcSince(from int) *Term {
	var ts []*Term
	for _, d := range e.dec[from:e.pos] {
		if d.kind == 2 {
			continue
		}
		if d.val {
			ts = append(ts, d.cond)
		} else {
			ts = append(ts, e.m.tb.Not(d.cond))
		}
	}
	return e.m.tb.And(ts...)
}

// checkSide: is pc ∧ lit satisfiable? returns result and model if sat.
func (e *Explorer) checkSide(lit *Term) (Result, Model) {
	s := e.m.sol
	s.Push()
	s.Assert(lit)
	e.FeasQueries++
	r := s.Check()
	var md Model
	if r == Sat {
		md = s.Model()
	}
	s.Pop()
	return r, md
}

func (e *Explorer) pushConstraint(d decision) {
	if traceLvl >= 2 {
		fmt.Fprintf(os.Stderr, "T path=%d PUSH pos=%d kind=%d val=%v alt=%v %s\n", e.Paths, e.pos, d.kind, d.val, d.hasAlt, trunc(d.cond.String(), 90))
	}
	s := e.m.sol
	s.Push()
	if d.kind != 2 {
		if d.val {
			s.Assert(d.cond)
		} else {
			s.Assert(e.m.tb.Not(d.cond))
		}
	}
	e.dec = append(e.dec, d)
	e.pos++
}

func (e *Explorer) evalModel(c *Term) (bool, bool) {
	if !e.modelOK || e.model == nil {
		return false, false
	}
	if debugModel {
		memo := map[*Term]int64{}
		for i, t := range e.pc() {
			if v, ok := t.Eval(e.model, memo); ok && v == 0 {
				fmt.Fprintf(os.Stderr, "INVALID MODEL: pc[%d]=%v false under %v\n%s\n", i, trunc(t.String(), 200), e.model, debug.Stack())
				break
			}
		}
	}
	v, ok := c.Eval(e.model, map[*Term]int64{})
	return v != 0, ok
}

// decide returns the branch direction for a symbolic condition.
func (m *Machine) decide(c *Term) bool {
	e := m.ex
	if c.IsConst() {
		e.lastDecision = c.k != 0
		return e.lastDecision
	}
	if e.pos < len(e.dec) {
		d := e.dec[e.pos]
		if d.kind == 2 || d.cond != c {
			panic(engineError{fmt.Sprintf("non-deterministic replay at decision %d: have %v want %v", e.pos, c, d.cond)})
		}
		e.pos++
		e.lastDecision = d.val
		return d.val
	}
	if !m.deadline.IsZero() && time.Now().After(m.deadline) {
		panic(unsupported("unit time budget exceeded"))
	}
	if m.inPerAlt {
		panic(perAltAbort{})
	}
	tFeas, fFeas := Unknown, Unknown
	var tModel, fModel Model
	tKnown, fKnown := false, false
	if v, ok := e.evalModel(c); ok {
		if v {
			tFeas, tModel, tKnown = Sat, e.model, true
		} else {
			fFeas, fModel, fKnown = Sat, e.model, true
		}
	}
	if !tKnown {
		tFeas, tModel = e.checkSide(c)
	}
	if !fKnown {
		if tFeas == Unsat {
			// pc is satisfiable (invariant), so the other side must be
			fFeas, fModel = Sat, e.model
			if !e.modelOK {
				fModel = nil
			}
		} else {
			fFeas, fModel = e.checkSide(m.tb.Not(c))
		}
	}
	if tFeas == Unknown || fFeas == Unknown {
		e.unknownFeas++
	}
	d := decision{cond: c}
	switch {
	case tFeas != Unsat:
		d.val = true
		d.hasAlt = fFeas != Unsat
		d.altModel = fModel
		e.setModel(tModel)
	case fFeas != Unsat:
		d.val = false
		e.setModel(fModel)
	default:
		panic(pathAbort{"both sides infeasible"})
	}
	e.pushConstraint(d)
	e.lastDecision = d.val
	return d.val
}

// proveRange asks the solver whether lo <= t <= hi holds on every model of
// the current path condition.  Proven facts are cached for the current path
// (the cache is dropped whenever the explorer backtracks).
func (e *Explorer) proveRange(t *Term, lo, hi int64) bool {
	if e.rangeFacts == nil {
		e.rangeFacts = map[*Term][3]int64{}
	}
	if f, ok := e.rangeFacts[t]; ok && int(f[2]) <= e.pos && f[0] >= lo && f[1] <= hi {
		return true
	}
	tb := e.m.tb
	in := tb.And(tb.Le(tb.Int(lo), t), tb.Le(t, tb.Int(hi)))
	if in.IsConst() {
		return in.k != 0
	}
	save, saveOK := e.model, e.modelOK
	r, _ := e.checkSide(tb.Not(in))
	e.model, e.modelOK = save, saveOK
	if r == Unsat {
		e.rangeFacts[t] = [3]int64{lo, hi, int64(e.pos)}
		return true
	}
	return false
}

func (e *Explorer) setModel(md Model) {
	if md != nil {
		e.model, e.modelOK = md, true
	} else {
		e.modelOK = false
	}
}

// assume adds c to the path condition (abort path if infeasible).
func (m *Machine) assume(c value) {
	e := m.ex
	switch c := c.(type) {
	case bool:
		if !c {
			panic(pathAbort{"assume false"})
		}
	case *Term:
		if c.IsConst() {
			if c.k == 0 {
				panic(pathAbort{"assume false"})
			}
			return
		}
		if e.pos < len(e.dec) {
			d := e.dec[e.pos]
			if d.cond != c || d.kind != 1 {
				if os.Getenv("SYMGO_TRACE") != "" {
					fmt.Fprintf(os.Stderr, "MISMATCH at assume; stack:\n%s\n", debug.Stack())
					for i, dd := range e.dec {
						fmt.Fprintf(os.Stderr, "  dec[%d] kind=%d val=%v alt=%v %v\n", i, dd.kind, dd.val, dd.hasAlt, trunc(dd.cond.String(), 100))
					}
				}
				panic(engineError{fmt.Sprintf("non-deterministic replay at assume (pos %d kind %d): have %v want %v", e.pos, d.kind, c, d.cond)})
			}
			e.pos++
			return
		}
		if v, ok := e.evalModel(c); ok && v {
			// model still fine
		} else {
			r, md := e.checkSide(c)
			if r == Unsat {
				panic(pathAbort{"assume infeasible"})
			}
			if r == Unknown {
				e.unknownFeas++
			}
			e.setModel(md)
		}
		e.pushConstraint(decision{cond: c, val: true, kind: 1})
	default:
		panic(engineError{fmt.Sprintf("assume %T", c)})
	}
}

func (e *Explorer) currentModel() Model {
	md, _ := e.currentModelR()
	return md
}

// currentModelR always asks the solver (a cached model may predate inputs declared later).
func (e *Explorer) currentModelR() (Model, Result) {
	s := e.m.sol
	r := s.Check()
	if r == Sat {
		md := s.Model()
		e.setModel(md)
		return md, r
	}
	return nil, r
}

// assert checks validity of c on this path.
func (m *Machine) assert(id string, c value, pos string) {
	e := m.ex
	ob := Obligation{ID: id, Kind: "assert", Pos: pos, PathLen: e.pos}
	switch c := c.(type) {
	case bool:
		if c {
			ob.Result = "trivial"
			e.trivialOK++
		} else {
			md, r := e.currentModelR()
			if r == Unsat {
				panic(pathAbort{"path is infeasible (found when asking for a model)"})
			}
			ob.Result = "sat"
			ob.Model = md
			e.Obls = append(e.Obls, ob)
			panic(pathAbort{"assertion failed concretely"})
		}
		e.Obls = append(e.Obls, ob)
	case *Term:
		if e.pos < len(e.dec) {
			// replaying a prefix: obligation already recorded
			m.assume(c)
			return
		}
		e.AssertQueries++
		e.NonTrivial++
		r, md := e.checkSide(m.tb.Not(c))
		ob.Result = r.String()
		if r == Sat {
			ob.Model = md
			ob.Msg = m.unit.lastPanic
		}
		if len(e.Samples) < 6 {
			e.Samples = append(e.Samples, fmt.Sprintf("%s @%s under pc of %d constraints: not(%s) is %s", id, pos, e.pos, trunc(c.String(), 160), r))
		}
		e.Obls = append(e.Obls, ob)
		m.assume(c)
	default:
		panic(engineError{fmt.Sprintf("assert %T", c)})
	}
}

func trunc(s string, n int) string {
	if len(s) > n {
		return s[:n] + "…"
	}
	return s
}

func (e *Explorer) overflowObligation(t *Term, in ssa.Instruction) {
	m := e.m
	if e.pos < len(e.dec) {
		return
	}
	const lim = int64(1) << 61
	ok := m.tb.And(m.tb.Le(m.tb.Int(-lim), t), m.tb.Le(t, m.tb.Int(lim)))
	r, md := e.checkSide(m.tb.Not(ok))
	pos := "?"
	if in != nil {
		pos = posOf(m.prog, in.Pos())
	}
	ob := Obligation{ID: "int-overflow", Kind: "overflow", Pos: pos, Result: r.String(), PathLen: e.pos}
	if r == Sat {
		ob.Model = md
	}
	e.Obls = append(e.Obls, ob)
	if r != Unsat {
		// the Int encoding no longer coincides with int64 beyond this point
		panic(pathAbort{"possible integer overflow (reported)"})
	}
}

// concretize forks over the feasible values of t.
func (m *Machine) concretize(t *Term, pos token.Pos, what string) int64 {
	if t.lo <= -inf || t.hi >= inf || t.hi-t.lo > 4096 {
		panic(unsupported(fmt.Sprintf("cannot concretise %s at %s: range too large", what, posOf(m.prog, pos))))
	}
	for k := t.lo; k < t.hi; k++ {
		if m.decide(m.tb.Eq(t, m.tb.Int(k))) {
			return k
		}
	}
	return t.hi
}

// ---------- top-level DFS ----------

type PathOutcome struct {
	Kind string // ok | panic | abort | unsupported
	Msg  string
}

func (e *Explorer) runPath(root func()) (out PathOutcome) {
	defer func() {
		if r := recover(); r != nil {
			switch r := r.(type) {
			case targetPanic:
				out = PathOutcome{"panic", r.msg + " @" + r.pos}
			case pathAbort:
				out = PathOutcome{"abort", r.why}
				if os.Getenv("SYMGO_TRACE_ABORT") != "" {
					fmt.Fprintf(os.Stderr, "ABORT %s\n%s\n", r.why, debug.Stack())
				}
			case unsupported:
				out = PathOutcome{"unsupported", string(r)}
			case mergeFail:
				out = PathOutcome{"unsupported", "merge: " + r.why}
			case engineError:
				out = PathOutcome{"engine-error", r.msg}
			default:
				panic(r)
			}
		}
	}()
	root()
	return PathOutcome{"ok", ""}
}

// backtrack flips the deepest decision (index >= floor) with an unexplored
// alternative. Returns false when exhausted.
func (e *Explorer) backtrack(floor int) bool {
	e.rangeFacts = nil
	for len(e.dec) > floor {
		last := &e.dec[len(e.dec)-1]
		if last.hasAlt {
			d := *last
			e.m.sol.PopTo(e.baseLevel + len(e.dec) - 1)
			e.dec = e.dec[:len(e.dec)-1]
			d.val = !d.val
			d.hasAlt = false
			e.pos = len(e.dec)
			e.setModel(d.altModel)
			d.altModel = nil
			e.pushConstraint(d)
			return true
		}
		e.dec = e.dec[:len(e.dec)-1]
	}
	e.m.sol.PopTo(e.baseLevel + floor)
	return false
}

func (e *Explorer) Explore(root func(), onPath func(PathOutcome)) {
	m := e.m
	e.baseLevel = m.sol.Level()
	mark := len(m.trail)
	for {
		m.undoTo(mark)
		e.pos = 0
		e.bseq = 0
		e.rangeFacts = nil
		m.varSeq = map[string]int{}
		m.apxSeq = 0
		out := e.runPath(root)
		e.Paths++
		if out.Kind == "abort" {
			e.Aborted++
		}
		onPath(out)
		if e.Paths >= e.maxPaths {
			onPath(PathOutcome{"unsupported", "path budget exceeded"})
			break
		}
		if !e.backtrack(0) {
			break
		}
	}
	m.undoTo(mark)
}

// each explores every path of f from the current state (assertions inside
// are decided per path), then rolls the state back and continues on a single
// path: forks inside f add to, instead of multiplying with, the caller's.
func (e *Explorer) each(f func()) {
	m := e.m
	if e.pos < len(e.dec) {
		return // replaying a recorded prefix: this block was already explored in this context
	}
	mark := len(m.trail)
	floor := len(e.dec)
	baseModel, baseModelOK := e.model, e.modelOK
	seq0 := e.bseq
	defer func() { e.bseq = seq0 }()
	var pass any
	for {
		m.undoTo(mark)
		e.pos = floor
		e.bseq = seq0
		func() {
			defer func() {
				if r := recover(); r != nil {
					switch r := r.(type) {
					case targetPanic:
						e.Obls = append(e.Obls, Obligation{ID: "no-uncaught-panic", Kind: "nopanic", Pos: r.msg + " @" + r.pos, Result: "sat", Model: e.currentModel(), PathLen: e.pos, Msg: r.msg})
					case pathAbort:
						e.Aborted++
					default:
						pass = r
					}
				}
			}()
			f()
		}()
		e.Paths++
		if pass != nil {
			break
		}
		if !e.backtrack(floor) {
			break
		}
	}
	for len(e.dec) > floor {
		e.dec = e.dec[:len(e.dec)-1]
	}
	m.sol.PopTo(e.baseLevel + floor)
	e.pos = floor
	e.model, e.modelOK = baseModel, baseModelOK
	e.rangeFacts = nil
	m.undoTo(mark)
	if pass != nil {
		panic(pass)
	}
}

// ---------- region merging ----------

type pathEnd struct {
	pc       *Term
	env      map[ssa.Value]value
	prev     *ssa.BasicBlock
	writes   map[*value]value // final values of pre-existing cells
	mapw     []undo
	kind     int // 0 reached join, 1 returned, 2 panicked
	result   value
	pan      any
	order    []*value
	phisDone bool
}

func (m *Machine) postDom(fn *ssa.Function) map[*ssa.BasicBlock]*ssa.BasicBlock {
	if pd, ok := m.pdom[fn]; ok {
		return pd
	}
	// iterative post-dominator computation; exit = virtual node (nil).
	// Blocks ending in Panic have no successors and are ignored (treated as
	// not reaching exit) so that `if bad { panic }` joins at the else branch.
	blocks := fn.Blocks
	n := len(blocks)
	idx := map[*ssa.BasicBlock]int{}
	for i, b := range blocks {
		idx[b] = i
	}
	// pdomSet as bitsets over n+1 (n = exit)
	full := make([]bool, n+1)
	for i := range full {
		full[i] = true
	}
	sets := make([][]bool, n)
	isRet := make([]bool, n)
	isPanic := make([]bool, n)
	for i, b := range blocks {
		sets[i] = append([]bool(nil), full...)
		if len(b.Instrs) > 0 {
			switch b.Instrs[len(b.Instrs)-1].(type) {
			case *ssa.Return:
				isRet[i] = true
			case *ssa.Panic:
				isPanic[i] = true
			}
		}
	}
	changed := true
	for changed {
		changed = false
		for i := n - 1; i >= 0; i-- {
			b := blocks[i]
			if isPanic[i] {
				continue
			}
			var ns []bool
			if isRet[i] {
				ns = make([]bool, n+1)
				ns[n] = true
			} else {
				first := true
				for _, s := range b.Succs {
					j := idx[s]
					if isPanic[j] {
						continue
					}
					if first {
						ns = append([]bool(nil), sets[j]...)
						first = false
					} else {
						for k := range ns {
							ns[k] = ns[k] && sets[j][k]
						}
					}
				}
				if first {
					ns = append([]bool(nil), full...)
				}
			}
			ns[i] = true
			for k := range ns {
				if ns[k] != sets[i][k] {
					changed = true
					break
				}
			}
			sets[i] = ns
		}
	}
	pd := map[*ssa.BasicBlock]*ssa.BasicBlock{}
	for i, b := range blocks {
		// immediate post-dominator: the strict post-dominator that is post-dominated by all others
		var cands []int
		for k := 0; k < n; k++ {
			if k != i && sets[i][k] {
				cands = append(cands, k)
			}
		}
		var ip *ssa.BasicBlock
		for _, c := range cands {
			ok := true
			for _, o := range cands {
				if o != c && !sets[c][o] {
					ok = false
					break
				}
			}
			if ok {
				ip = blocks[c]
				break
			}
		}
		pd[b] = ip // nil => exit
	}
	m.pdom[fn] = pd
	return pd
}

// isLoopHeader: some predecessor is dominated by b (back edge).
func isLoopHeader(b *ssa.BasicBlock) bool {
	for _, p := range b.Preds {
		if b.Dominates(p) {
			return true
		}
	}
	return false
}

func blockPanics(b *ssa.BasicBlock) bool {
	// a block that (after straight-line code) ends in panic
	if len(b.Instrs) == 0 {
		return false
	}
	_, ok := b.Instrs[len(b.Instrs)-1].(*ssa.Panic)
	return ok
}

// branch handles an If on a symbolic condition.  Returns true if a merged
// region was executed (fr.block/fr.prev now at the join or frame finished);
// false if the caller must follow m.ex.lastDecision.
func (m *Machine) branch(fr *frame, in *ssa.If, c *Term) bool {
	e := m.ex
	b := in.Block()
	e.bseq++
	myseq := e.bseq
	if m.noMerge || blockPanics(b.Succs[0]) || blockPanics(b.Succs[1]) {
		m.decide(c)
		return false
	}
	if !m.mergeLoops && isLoopHeader(b) {
		replay := e.pos < len(e.dec)
		m.decide(c)
		if !replay && m.freshOn > 0 && e.dec[len(e.dec)-1].hasAlt {
			// a genuinely two-sided loop exit inside a merge region: merged
			// loop states give the solver nested ite/mod terms it handles badly,
			// so the enclosing regions are explored as plain forks instead.
			panic(mergeFail{"loop with symbolic trip count"})
		}
		return false
	}
	// replaying a recorded no-merge marker?
	if e.pos < len(e.dec) {
		d := e.dec[e.pos]
		if d.kind == 2 && d.site == in && d.seq == myseq {
			e.pos++
			m.decide(c)
			return false
		}
	}
	join := m.postDom(fr.fn)[b]
	ok := m.mergeRegion(fr, in, c, join)
	e.bseq = myseq
	if ok {
		return true
	}
	// record that merging failed here, then fork
	e.MergeFails++
	e.failCount++
	if n := len(e.failBase); n > 0 && e.failCount-e.failBase[n-1] >= 3 {
		// several nested regions already failed to merge inside the enclosing
		// exploration: give the enclosing region up as well (bounds re-exploration)
		panic(mergeFail{"too many failed inner merges"})
	}
	e.pushConstraint(decision{cond: c, kind: 2, val: true, site: in, seq: myseq})
	m.decide(c)
	return false
}

func copyEnv(env map[ssa.Value]value) map[ssa.Value]value {
	c := make(map[ssa.Value]value, len(env)+8)
	for k, v := range env {
		c[k] = v
	}
	return c
}

func (m *Machine) mergeRegion(fr *frame, in *ssa.If, c *Term, join *ssa.BasicBlock) (merged bool) {
	e := m.ex
	// When replaying a recorded prefix through this region, the nested
	// exploration must see exactly the context it saw originally: park the
	// not-yet-replayed tail of decisions and restore it afterwards.
	var tail []decision
	if e.pos < len(e.dec) {
		tail = append(tail, e.dec[e.pos:]...)
		m.sol.PopTo(e.baseLevel + e.pos)
		e.dec = e.dec[:e.pos]
	}
	b := in.Block()
	if traceLvl >= 2 {
		fmt.Fprintf(os.Stderr, "T path=%d ENTER %s b%d floor=%d tail=%d\n", e.Paths, fr.fn.Name(), b.Index, e.pos, len(tail))
	}
	entrySerial := m.serial
	seqAtEntry := e.bseq
	e.failBase = append(e.failBase, e.failCount)
	defer func() { e.failBase = e.failBase[:len(e.failBase)-1] }()
	envSnap := copyEnv(fr.env)
	defersSnap := len(fr.defers)
	mark := len(m.trail)
	floor := len(e.dec)
	baseModel, baseModelOK := e.model, e.modelOK
	m.freshOn++
	if m.freshOn == 1 {
		m.fresh = map[*value]int{}
		m.freshMaps = map[*MapV]int{}
	}
	defer func() { m.freshOn-- }()

	var ends []pathEnd
	npaths := 0
	fail := false
	var failWhy string
	var passThrough any
	for {
		// restore
		m.undoTo(mark)
		fr.env = copyEnv(envSnap)
		fr.defers = fr.defers[:defersSnap]
		fr.done = false
		fr.skipPhis = false
		e.pos = floor
		e.bseq = seqAtEntry
		var end pathEnd
		func() {
			defer func() {
				if r := recover(); r != nil {
					switch r := r.(type) {
					case targetPanic:
						end.kind = 2
						end.pan = r
					case pathAbort:
						end.kind = 3
					default:
						passThrough = r
						end.kind = 4
					}
				}
			}()
			tk := m.decide(c)
			if tk {
				fr.prev, fr.block = b, b.Succs[0]
			} else {
				fr.prev, fr.block = b, b.Succs[1]
			}
			if fr.block == join {
				end.kind = 0
				return
			}
			sk := m.runUntil(fr, join)
			if sk == stopReturn {
				end.kind = 1
				end.result = fr.result
			}
		}()
		npaths++
		if end.kind == 4 {
			break
		}
		if end.kind != 3 {
			end.pc = e.pcSince(floor)
			end.env = fr.env
			end.prev = fr.prev
			end.phisDone = fr.skipPhis
			if end.kind != 2 {
				end.writes = map[*value]value{}
				for _, u := range m.trail[mark:] {
					switch u.kind {
					case 0:
						if _, seen := end.writes[u.p]; !seen {
							end.order = append(end.order, u.p)
						}
						end.writes[u.p] = copyVal(*u.p)
					case 4:
						// lock counter bookkeeping
					default:
						fail, failWhy = true, "map write in region"
					}
				}
			}
			ends = append(ends, end)
		}
		if npaths > 64 {
			fail, failWhy = true, "too many paths in region"
		}
		if fail {
			break
		}
		if !e.backtrack(floor) {
			break
		}
	}
	// leave solver/decisions at floor
	for len(e.dec) > floor {
		e.dec = e.dec[:len(e.dec)-1]
	}
	m.sol.PopTo(e.baseLevel + floor)
	e.pos = floor
	e.rangeFacts = nil
	for _, d := range tail {
		e.pushConstraint(d)
	}
	e.pos = floor
	e.model, e.modelOK = baseModel, baseModelOK
	m.undoTo(mark)
	fr.env = envSnap
	fr.defers = fr.defers[:defersSnap]
	fr.done = false
	fr.skipPhis = false
	if passThrough != nil {
		if _, ok := passThrough.(mergeFail); ok {
			return false
		}
		panic(passThrough)
	}
	if fail {
		_ = failWhy
		return false
	}
	// split survivors / panics
	var surv, pans []pathEnd
	for _, en := range ends {
		if en.kind == 2 {
			pans = append(pans, en)
		} else {
			surv = append(surv, en)
		}
	}
	if len(surv) == 0 {
		// every path panics or aborts: fork normally (cheap: few paths)
		return false
	}
	kind := surv[0].kind
	for _, s := range surv {
		if s.kind != kind {
			return false // some paths return, others reach join: cannot happen with a proper ipdom
		}
	}
	// try the merge (may fail with mergeFail)
	okMerge := true
	mergeWhy := ""
	var mergedEnv map[ssa.Value]value
	var mergedWrites map[*value]value
	var mergedResult value
	var worder []*value
	func() {
		defer func() {
			if r := recover(); r != nil {
				if mf, ok := r.(mergeFail); ok {
					okMerge = false
					mergeWhy = mf.why
					return
				}
				panic(r)
			}
		}()
		mg := &merger{m: m, memo: map[string]value{}, entrySerial: entrySerial}
		for _, s := range surv {
			mg.overlays = append(mg.overlays, s.writes)
		}
		n := len(surv)
		guards := make([]*Term, n)
		for i, s := range surv {
			guards[i] = s.pc
		}
		if kind == 0 {
			// all must arrive from... (different prev allowed; handle phis here)
			mergedEnv = copyEnv(envSnap)
			// registers: union of keys
			keys := map[ssa.Value]bool{}
			for _, s := range surv {
				for k := range s.env {
					keys[k] = true
				}
			}
			for k := range keys {
				vals := make([]value, n)
				all := true
				for i, s := range surv {
					v, ok := s.env[k]
					if !ok {
						all = false
						break
					}
					vals[i] = v
				}
				if !all {
					delete(mergedEnv, k) // defined only on some paths: dead after join
					continue
				}
				mergedEnv[k] = mg.merge(guards, vals)
			}
			// phis at join
			if join != nil {
				for _, ins := range join.Instrs {
					phi, ok := ins.(*ssa.Phi)
					if !ok {
						break
					}
					vals := make([]value, n)
					for i, s := range surv {
						if s.phisDone {
							vals[i] = s.env[phi]
							continue
						}
						var idx int
						for k, p := range join.Preds {
							if p == s.prev {
								idx = k
								break
							}
						}
						fake := &frame{fn: fr.fn, env: s.env}
						vals[i] = m.get(fake, phi.Edges[idx])
					}
					mergedEnv[phi] = mg.merge(guards, vals)
				}
			}
		} else {
			vals := make([]value, n)
			for i, s := range surv {
				vals[i] = s.result
			}
			mergedResult = mg.merge(guards, vals)
		}
		// heap writes
		mergedWrites = map[*value]value{}
		seen := map[*value]bool{}
		for _, s := range surv {
			for _, p := range s.order {
				if seen[p] {
					continue
				}
				seen[p] = true
				if sr, ok := m.fresh[p]; ok && sr > entrySerial {
					// allocated inside the region by this path only: keep its final content
					// (it may stay reachable when the pointer is the same on every surviving path)
					worder = append(worder, p)
					mergedWrites[p] = s.writes[p]
					continue
				}
				worder = append(worder, p)
				vals := make([]value, n)
				for i, s2 := range surv {
					if v, ok := s2.writes[p]; ok {
						vals[i] = v
					} else {
						vals[i] = *p // unchanged (state is restored to region entry)
					}
				}
				mergedWrites[p] = mg.merge(guards, vals)
			}
		}
	}()
	if os.Getenv("SYMGO_TRACE") != "" {
		ks := ""
		for _, en := range ends {
			ks += fmt.Sprintf("%d", en.kind)
		}
		fmt.Fprintf(os.Stderr, "REGION %s b%d paths=%s ok=%v why=%s floor=%d tail=%d cond=%s\n", fr.fn.Name(), in.Block().Index, ks, okMerge, mergeWhy, floor, len(tail), trunc(c.String(), 120))
	}
	if !okMerge {
		return false
	}
	e.Merges++
	// constrain to surviving/panicking paths
	var survPCs []*Term
	for _, s := range surv {
		survPCs = append(survPCs, s.pc)
	}
	survG := m.tb.Or(survPCs...)
	if len(pans) > 0 || len(surv) < len(ends) || true {
		// panicking paths are split off as forks
		if len(pans) > 0 {
			if !m.decide(survG) {
				for i, p := range pans {
					if i == len(pans)-1 || m.decide(p.pc) {
						panic(p.pan)
					}
				}
			}
		} else if !(survG.IsConst() && survG.k != 0) {
			m.assume(survG)
		}
	}
	for _, p := range worder {
		m.store(p, mergedWrites[p])
	}
	if kind == 0 {
		fr.env = mergedEnv
		// position at join with phis already evaluated: emulate by setting prev
		// to a predecessor and pre-seeding phi values; runUntil re-evaluates phis
		// from fr.prev, so we bypass by marking.
		fr.block = join
		fr.prev = nil
		m.skipPhis(fr, join)
		return true
	}
	fr.result = mergedResult
	fr.done = true
	m.runDefers(fr)
	return true
}

// skipPhis arranges for runUntil to start at join without re-evaluating
// phis (they were merged explicitly).
func (m *Machine) skipPhis(fr *frame, join *ssa.BasicBlock) {
	fr.skipPhis = true
}

// merger merges values from n paths under pairwise-disjoint guards.
type merger struct {
	m           *Machine
	memo        map[string]value
	entrySerial int
	trustFresh  bool               // pointers are known to be freshly allocated per alternative
	overlays    []map[*value]value // per surviving path: final values of written cells
}

// final reads the end-of-path content of cell q on path i (the heap itself
// has been rolled back to the region entry).
func (g *merger) final(i int, q *value) value {
	if v, ok := g.overlays[i][q]; ok {
		return v
	}
	return g.finalVal(i, *q)
}

func (g *merger) finalVal(i int, v value) value {
	switch s := v.(type) {
	case Struct:
		out := make(Struct, len(s))
		for k := range s {
			out[k] = g.final(i, &s[k])
		}
		return out
	case Array:
		out := make(Array, len(s))
		for k := range s {
			out[k] = g.final(i, &s[k])
		}
		return out
	}
	return v
}

func (g *merger) merge(guards []*Term, vals []value) value {
	m := g.m
	// all identical?
	same := true
	for i := 1; i < len(vals); i++ {
		if !identical(vals[0], vals[i]) {
			same = false
			break
		}
	}
	if same {
		return vals[0]
	}
	switch v0 := vals[0].(type) {
	case int64, bool, *Term, string, *SymStr, float64, *FRat, *FTab, *FApx, FUnknown:
		r := vals[len(vals)-1]
		for i := len(vals) - 2; i >= 0; i-- {
			r = m.iteVal(guards[i], vals[i], r)
		}
		return r
	case Struct:
		out := make(Struct, len(v0))
		for k := range out {
			fv := make([]value, len(vals))
			for i, v := range vals {
				s, ok := v.(Struct)
				if !ok || len(s) != len(v0) {
					panic(mergeFail{"struct shape"})
				}
				fv[i] = s[k]
			}
			out[k] = g.merge(guards, fv)
		}
		return out
	case Tuple:
		out := make(Tuple, len(v0))
		for k := range out {
			fv := make([]value, len(vals))
			for i, v := range vals {
				fv[i] = v.(Tuple)[k]
			}
			out[k] = g.merge(guards, fv)
		}
		return out
	case Iface:
		fv := make([]value, len(vals))
		for i, v := range vals {
			ifc, ok := v.(Iface)
			if !ok || (ifc.t == nil) != (v0.t == nil) || (ifc.t != nil && ifc.t.String() != v0.t.String()) {
				panic(mergeFail{"iface dynamic types differ"})
			}
			fv[i] = ifc.v
		}
		return Iface{t: v0.t, v: g.merge(guards, fv)}
	case *value:
		// pointers: all fresh (allocated inside the region) -> structural merge
		key := ""
		for _, v := range vals {
			p, ok := v.(*value)
			if !ok || p == nil {
				panic(mergeFail{"nil/non-nil pointer mix"})
			}
			if sr, fresh := m.fresh[p]; !g.trustFresh && (!fresh || sr <= g.entrySerial) {
				panic(mergeFail{"distinct pre-existing pointers"})
			}
			key += fmt.Sprintf("%p,", p)
		}
		if r, ok := g.memo[key]; ok {
			return r
		}
		np := m.newCell(nil)
		g.memo[key] = np
		fv := make([]value, len(vals))
		for i, v := range vals {
			fv[i] = g.final(i, v.(*value))
		}
		*np = g.merge(guards, fv)
		m.regFreshDeep(np)
		return np
	case SliceV:
		for _, v := range vals {
			s, ok := v.(SliceV)
			if !ok || s.len != v0.len {
				panic(mergeFail{"slice lengths differ"})
			}
		}
		arr := make([]value, v0.len)
		for k := range arr {
			fv := make([]value, len(vals))
			for i, v := range vals {
				s := v.(SliceV)
				fv[i] = g.final(i, &s.arr[s.off+k])
			}
			arr[k] = g.merge(guards, fv)
			m.regFresh(&arr[k])
		}
		return SliceV{arr: arr, len: len(arr), cap: len(arr)}
	}
	panic(mergeFail{fmt.Sprintf("cannot merge %T", vals[0])})
}

func identical(a, b value) bool {
	switch x := a.(type) {
	case int64, bool, string, float64:
		return a == b
	case *Term:
		y, ok := b.(*Term)
		return ok && x == y
	case *value:
		y, ok := b.(*value)
		return ok && x == y
	case *MapV:
		y, ok := b.(*MapV)
		return ok && x == y
	case *Closure:
		y, ok := b.(*Closure)
		return ok && x == y
	case *ssa.Function:
		y, ok := b.(*ssa.Function)
		return ok && x == y
	case *SymStr:
		y, ok := b.(*SymStr)
		return ok && x == y
	case *FRat:
		y, ok := b.(*FRat)
		return ok && x.num == y.num && x.den == y.den
	case *FTab:
		y, ok := b.(*FTab)
		return ok && x == y
	case *FApx:
		y, ok := b.(*FApx)
		return ok && x.num == y.num && x.den == y.den && x.err == y.err
	case nil:
		return b == nil
	case Iface:
		y, ok := b.(Iface)
		if !ok {
			return false
		}
		if x.t == nil || y.t == nil {
			return x.t == nil && y.t == nil
		}
		return x.t.String() == y.t.String() && identical(x.v, y.v)
	case SliceV:
		y, ok := b.(SliceV)
		if !ok || x.len != y.len || x.off != y.off {
			return false
		}
		if x.len == 0 && y.len == 0 {
			return true
		}
		return len(x.arr) > 0 && len(y.arr) > 0 && &x.arr[0] == &y.arr[0]
	case Struct:
		y, ok := b.(Struct)
		if !ok || len(x) != len(y) {
			return false
		}
		for i := range x {
			if !identical(x[i], y[i]) {
				return false
			}
		}
		return true
	case Tuple:
		y, ok := b.(Tuple)
		if !ok || len(x) != len(y) {
			return false
		}
		for i := range x {
			if !identical(x[i], y[i]) {
				return false
			}
		}
		return true
	case *rangeIter:
		y, ok := b.(*rangeIter)
		return ok && x == y
	case Builtin:
		return a == b
	case *SymPtr:
		y, ok := b.(*SymPtr)
		return ok && x == y
	}
	return false
}

// ---------- reporting helpers ----------

func (e *Explorer) summary() string {
	var sb strings.Builder
	byRes := map[string]int{}
	for _, o := range e.Obls {
		byRes[o.Kind+":"+o.Result]++
	}
	var ks []string
	for k := range byRes {
		ks = append(ks, k)
	}
	sort.Strings(ks)
	for _, k := range ks {
		fmt.Fprintf(&sb, "%s=%d ", k, byRes[k])
	}
	return fmt.Sprintf("paths=%d aborted=%d feasQ=%d assertQ=%d merges=%d mergeFails=%d %s", e.Paths, e.Aborted, e.FeasQueries, e.AssertQueries, e.Merges, e.MergeFails, sb.String())
}

var _ = os.Stderr
