package main

// Incremental SMT solver driven over a pipe (z3 -in).  Terms are sent as
// nullary define-funs so the DAG stays shared; definitions and declarations
// are tracked per push level and forgotten on pop.

import (
	"bufio"
	"fmt"
	"io"
	"os"
	"os/exec"
	"strconv"
	"strings"
	"time"
)

type Result int

const (
	Unsat Result = iota
	Sat
	Unknown
)

func (r Result) String() string { return [...]string{"unsat", "sat", "unknown"}[r] }

type Solver struct {
	cmd       *exec.Cmd
	in        io.WriteCloser
	out       *bufio.Reader
	defined   []map[int]bool    // per level: term ids defined
	declared  []map[string]bool // per level: vars declared
	vars      map[string]*Term  // all vars ever declared (for model queries)
	log       io.Writer
	Queries   int
	Time      time.Duration
	timeoutMs int
	Errors    int
	recorder  func(script string, res Result) // for cross-solver sampling
	script    []string                        // mirror of everything currently asserted (stack of lines per level)
	levels    []int                           // script length at each push
	bin       string
}

func NewSolver(bin string, timeoutMs int) (*Solver, error) {
	s := &Solver{timeoutMs: timeoutMs, vars: map[string]*Term{}, bin: bin}
	if err := s.start(); err != nil {
		return nil, err
	}
	return s, nil
}

func (s *Solver) start() error {
	args := []string{"-in"}
	if strings.Contains(s.bin, "cvc5") {
		args = []string{"--incremental", "--lang=smt2", "--produce-models", fmt.Sprintf("--tlimit-per=%d", s.timeoutMs)}
	}
	s.cmd = exec.Command(s.bin, args...)
	in, err := s.cmd.StdinPipe()
	if err != nil {
		return err
	}
	out, err := s.cmd.StdoutPipe()
	if err != nil {
		return err
	}
	s.cmd.Stderr = os.Stderr
	if err := s.cmd.Start(); err != nil {
		return err
	}
	s.in = in
	s.out = bufio.NewReaderSize(out, 1<<20)
	s.defined = []map[int]bool{{}}
	s.declared = []map[string]bool{{}}
	s.script = nil
	s.levels = nil
	if strings.Contains(s.bin, "cvc5") {
		s.send("(set-logic ALL)")
	} else {
		s.send("(set-option :produce-models true)")
		s.send(fmt.Sprintf("(set-option :timeout %d)", s.timeoutMs))
	}
	return nil
}

func (s *Solver) Close() {
	if s.cmd != nil {
		s.in.Close()
		s.cmd.Process.Kill()
		s.cmd.Wait()
		s.cmd = nil
	}
}

func (s *Solver) send(line string) {
	if s.log != nil {
		fmt.Fprintln(s.log, line)
	}
	s.script = append(s.script, line)
	io.WriteString(s.in, line)
	io.WriteString(s.in, "\n")
}

func (s *Solver) Push() {
	s.levels = append(s.levels, len(s.script))
	s.send("(push 1)")
	s.defined = append(s.defined, map[int]bool{})
	s.declared = append(s.declared, map[string]bool{})
}

func (s *Solver) Pop() {
	n := len(s.levels) - 1
	s.send("(pop 1)")
	s.script = s.script[:s.levels[n]]
	s.levels = s.levels[:n]
	s.defined = s.defined[:len(s.defined)-1]
	s.declared = s.declared[:len(s.declared)-1]
}

func (s *Solver) Level() int { return len(s.levels) }

func (s *Solver) PopTo(level int) {
	for s.Level() > level {
		s.Pop()
	}
}

func (s *Solver) isDefined(id int) bool {
	for _, m := range s.defined {
		if m[id] {
			return true
		}
	}
	return false
}

func (s *Solver) isDeclared(n string) bool {
	for _, m := range s.declared {
		if m[n] {
			return true
		}
	}
	return false
}

// define makes sure t (and its sub-DAG) is known to the solver.
func (s *Solver) define(t *Term) {
	switch t.op {
	case OpConst:
		return
	case OpVar:
		if !s.isDeclared(t.name) {
			s.declared[len(s.declared)-1][t.name] = true
			s.vars[t.name] = t
			s.send(fmt.Sprintf("(declare-const %s %s)", t.name, sortName(t.sort)))
			if t.sort == SInt {
				if t.lo > -inf {
					s.send(fmt.Sprintf("(assert (>= %s %s))", t.name, smtInt(t.lo)))
				}
				if t.hi < inf {
					s.send(fmt.Sprintf("(assert (<= %s %s))", t.name, smtInt(t.hi)))
				}
			}
		}
		return
	}
	if s.isDefined(t.id) {
		return
	}
	// iterative post-order to avoid deep recursion
	type fr struct {
		t *Term
		i int
	}
	st := []fr{{t, 0}}
	for len(st) > 0 {
		f := &st[len(st)-1]
		if f.i < len(f.t.args) {
			a := f.t.args[f.i]
			f.i++
			if a.op == OpConst {
				continue
			}
			if a.op == OpVar {
				s.define(a)
				continue
			}
			if !s.isDefined(a.id) {
				st = append(st, fr{a, 0})
			}
			continue
		}
		x := f.t
		st = st[:len(st)-1]
		if s.isDefined(x.id) {
			continue
		}
		s.defined[len(s.defined)-1][x.id] = true
		s.send(fmt.Sprintf("(define-fun t%d () %s %s)", x.id, sortName(x.sort), smtBody(x)))
	}
}

func (s *Solver) Assert(t *Term) {
	s.define(t)
	s.send(fmt.Sprintf("(assert %s)", smtRef(t)))
}

func (s *Solver) readLine() string {
	line, err := s.out.ReadString('\n')
	if err != nil {
		return "(error \"solver died: " + err.Error() + "\")"
	}
	return strings.TrimSpace(line)
}

// Check runs check-sat under the current assertions.
func (s *Solver) Check() Result {
	t0 := time.Now()
	s.Queries++
	io.WriteString(s.in, "(check-sat)\n")
	if s.log != nil {
		fmt.Fprintln(s.log, "(check-sat)")
	}
	res := Unknown
	for {
		l := s.readLine()
		if l == "" {
			continue
		}
		if strings.HasPrefix(l, "(error") {
			s.Errors++
			fmt.Fprintln(os.Stderr, "SOLVER ERROR:", l)
			if strings.Contains(l, "solver died") {
				break
			}
			continue
		}
		switch l {
		case "sat":
			res = Sat
		case "unsat":
			res = Unsat
		case "unknown", "timeout":
			res = Unknown
		default:
			fmt.Fprintln(os.Stderr, "SOLVER?:", l)
			continue
		}
		break
	}
	s.Time += time.Since(t0)
	if s.Errors > 0 {
		res = Unknown
	}
	if res == Unknown {
		if d := os.Getenv("SYMGO_DUMP_UNKNOWN"); d != "" {
			os.WriteFile(fmt.Sprintf("%s/unknown_%d.smt2", d, s.Queries), []byte(strings.Join(s.script, "\n")+"\n(check-sat)\n"), 0o644)
		}
	}
	if s.recorder != nil {
		s.recorder(strings.Join(s.script, "\n")+"\n(check-sat)\n", res)
	}
	return res
}

// CheckWith checks the current context plus extra assumptions (scoped).
func (s *Solver) CheckWith(ts ...*Term) Result {
	s.Push()
	for _, t := range ts {
		s.Assert(t)
	}
	r := s.Check()
	s.Pop()
	return r
}

// Model fetches values of all declared vars (call right after a Sat Check,
// before popping).
func (s *Solver) Model() Model {
	m := Model{}
	var names []string
	for _, d := range s.declared {
		for n := range d {
			names = append(names, n)
		}
	}
	if len(names) == 0 {
		return m
	}
	io.WriteString(s.in, "(get-value ("+strings.Join(names, " ")+"))\n")
	// parse s-expression: ((a 1) (b (- 2)) (c true))
	depth := 0
	var sb strings.Builder
	for {
		l := s.readLine()
		if strings.HasPrefix(l, "(error") {
			s.Errors++
			return nil
		}
		sb.WriteString(l + " ")
		depth += strings.Count(l, "(") - strings.Count(l, ")")
		if depth <= 0 && sb.Len() > 1 {
			break
		}
	}
	txt := sb.String()
	toks := tokenize(txt)
	// toks: ( ( name val ) ( name ( - val ) ) ... )
	i := 1
	for i < len(toks)-1 {
		if toks[i] != "(" {
			break
		}
		name := toks[i+1]
		i += 2
		var v int64
		if toks[i] == "(" { // (- n)
			n, _ := strconv.ParseInt(toks[i+2], 10, 64)
			v = -n
			i += 4
		} else {
			switch toks[i] {
			case "true":
				v = 1
			case "false":
				v = 0
			default:
				v, _ = strconv.ParseInt(toks[i], 10, 64)
			}
			i++
		}
		i++ // closing )
		m[name] = v
	}
	return m
}

func tokenize(s string) []string {
	var toks []string
	cur := ""
	for _, c := range s {
		switch c {
		case '(', ')':
			if cur != "" {
				toks = append(toks, cur)
				cur = ""
			}
			toks = append(toks, string(c))
		case ' ', '\n', '\t':
			if cur != "" {
				toks = append(toks, cur)
				cur = ""
			}
		default:
			cur += string(c)
		}
	}
	if cur != "" {
		toks = append(toks, cur)
	}
	return toks
}

// one-shot run of a script on another solver binary (cross-check)
func runScript(bin string, script string, timeoutMs int) Result {
	var cmd *exec.Cmd
	if strings.Contains(bin, "cvc5") {
		cmd = exec.Command(bin, "--incremental", "--lang=smt2", fmt.Sprintf("--tlimit-per=%d", timeoutMs))
		script = "(set-logic ALL)\n" + stripOptions(script)
	} else {
		cmd = exec.Command(bin, "-in", fmt.Sprintf("-t:%d", timeoutMs))
	}
	cmd.Stdin = strings.NewReader(script)
	out, _ := cmd.Output()
	res := Unknown
	for _, l := range strings.Split(string(out), "\n") {
		l = strings.TrimSpace(l)
		if strings.HasPrefix(l, "(error") {
			return Unknown
		}
		switch l {
		case "sat":
			res = Sat
		case "unsat":
			res = Unsat
		}
	}
	return res
}

func stripOptions(s string) string {
	var out []string
	for _, l := range strings.Split(s, "\n") {
		if strings.HasPrefix(l, "(set-option") {
			continue
		}
		out = append(out, l)
	}
	return strings.Join(out, "\n")
}
