package main

import (
	"fmt"
	"go/token"
	"go/types"
	"math"
	"unicode/utf8"

	"golang.org/x/tools/go/ssa"
)

func basicInfo(t types.Type) (types.BasicInfo, types.BasicKind) {
	if t == nil {
		return 0, types.Invalid
	}
	if b, ok := t.Underlying().(*types.Basic); ok {
		return b.Info(), b.Kind()
	}
	return 0, types.Invalid
}

func typeRange(k types.BasicKind) (int64, int64) {
	switch k {
	case types.Int8:
		return -128, 127
	case types.Int16:
		return -32768, 32767
	case types.Int32:
		return -1 << 31, 1<<31 - 1
	case types.Uint8:
		return 0, 255
	case types.Uint16:
		return 0, 65535
	case types.Uint32:
		return 0, 1<<32 - 1
	case types.Uint, types.Uint64, types.Uintptr:
		return 0, inf
	}
	return -inf, inf
}

func wrapInt(v int64, k types.BasicKind) int64 {
	switch k {
	case types.Int8:
		return int64(int8(v))
	case types.Int16:
		return int64(int16(v))
	case types.Int32:
		return int64(int32(v))
	case types.Uint8:
		return int64(uint8(v))
	case types.Uint16:
		return int64(uint16(v))
	case types.Uint32:
		return int64(uint32(v))
	}
	return v
}

func (m *Machine) binop(op token.Token, x, y value, xt types.Type, in ssa.Instruction) value {
	// interface / pointer comparisons
	switch xv := x.(type) {
	case *value:
		yv, _ := y.(*value)
		switch op {
		case token.EQL:
			return xv == yv
		case token.NEQ:
			return xv != yv
		}
	case Iface:
		yv, _ := y.(Iface)
		eq := m.ifaceEq(xv, yv)
		switch op {
		case token.EQL:
			return eq
		case token.NEQ:
			return m.notVal(eq)
		}
	case *Closure:
		yv, _ := y.(*Closure)
		switch op {
		case token.EQL:
			return xv == yv
		case token.NEQ:
			return xv != yv
		}
	case nil:
		switch op {
		case token.EQL:
			return y == nil
		case token.NEQ:
			return y != nil
		}
	case SliceV:
		// only comparison with nil
		yv := y.(SliceV)
		switch op {
		case token.EQL:
			return xv.arr == nil && yv.arr == nil
		case token.NEQ:
			return !(xv.arr == nil && yv.arr == nil)
		}
	case *MapV:
		yv := y.(*MapV)
		switch op {
		case token.EQL:
			return xv.nilm && yv.nilm || xv == yv
		case token.NEQ:
			return !(xv.nilm && yv.nilm || xv == yv)
		}
	case Struct:
		yv := y.(Struct)
		var acc value = true
		for i := range xv {
			acc = m.andVal(acc, m.binop(token.EQL, xv[i], yv[i], nil, in))
		}
		if op == token.NEQ {
			return m.notVal(acc)
		}
		return acc
	}
	// strings
	switch x.(type) {
	case string, *SymStr:
		return m.strBinop(op, x, y, in)
	}
	switch x.(type) {
	case float64, *FRat, *FTab, *FApx, FUnknown:
		return m.floatBinop(op, x, y, in)
	}
	switch y.(type) {
	case *FRat, *FTab, *FApx, FUnknown:
		return m.floatBinop(op, x, y, in)
	}
	// bools
	if xb, ok := x.(bool); ok {
		if yb, ok := y.(bool); ok {
			switch op {
			case token.EQL:
				return xb == yb
			case token.NEQ:
				return xb != yb
			case token.AND:
				return xb && yb
			case token.OR:
				return xb || yb
			}
		}
	}
	xt2, xIsTerm := x.(*Term)
	yt2, yIsTerm := y.(*Term)
	if (xIsTerm && xt2.sort == SBool) || (yIsTerm && yt2.sort == SBool) {
		a, b := m.toTerm(x), m.toTerm(y)
		switch op {
		case token.EQL:
			return m.simp(m.tb.Eq(a, b))
		case token.NEQ:
			return m.simp(m.tb.Not(m.tb.Eq(a, b)))
		case token.AND:
			return m.simp(m.tb.And(a, b))
		case token.OR:
			return m.simp(m.tb.Or(a, b))
		}
		panic(unsupported("bool op " + op.String()))
	}
	info, kind := basicInfo(xt)
	// concrete ints
	if xi, ok := x.(int64); ok {
		if yi, ok := y.(int64); ok {
			return m.intOp(op, xi, yi, info, kind, in)
		}
	}
	if xIsTerm || yIsTerm {
		narrow := info&types.IsUnsigned != 0 || (kind != types.Int && kind != types.Int64 && kind != types.Invalid && kind != types.UntypedInt)
		if narrow {
			// narrow / unsigned symbolic arithmetic: only when the exact result provably fits the type
			a, b := m.toTerm(x), m.toTerm(y)
			var r *Term
			switch op {
			case token.ADD:
				r = m.tb.Add(a, b)
			case token.SUB:
				r = m.tb.Sub(a, b)
			case token.MUL:
				r = m.tb.Mul(a, b)
			}
			if r != nil {
				lo, hi := typeRange(kind)
				if r.lo >= lo && r.hi <= hi {
					return m.simp(r)
				}
				panic(unsupported(fmt.Sprintf("symbolic arithmetic on %v may wrap", xt)))
			}
		}
		a, b := m.toTerm(x), m.toTerm(y)
		tb := m.tb
		switch op {
		case token.ADD:
			return m.ovf(tb.Add(a, b), in)
		case token.SUB:
			return m.ovf(tb.Sub(a, b), in)
		case token.MUL:
			return m.ovf(tb.Mul(a, b), in)
		case token.QUO, token.REM:
			if !b.IsConst() || b.k == 0 {
				if m.decide(tb.Eq(b, tb.Int(0))) {
					m.tpanic(in.Pos(), "integer divide by zero")
				}
			}
			if op == token.QUO {
				return tb.Quo(a, b)
			}
			return tb.Rem(a, b)
		case token.EQL:
			return m.simp(tb.Eq(a, b))
		case token.NEQ:
			return m.simp(tb.Not(tb.Eq(a, b)))
		case token.LSS:
			return m.simp(tb.Lt(a, b))
		case token.LEQ:
			return m.simp(tb.Le(a, b))
		case token.GTR:
			return m.simp(tb.Lt(b, a))
		case token.GEQ:
			return m.simp(tb.Le(b, a))
		}
		panic(unsupported("symbolic int op " + op.String()))
	}
	panic(engineError{fmt.Sprintf("binop %s on %T,%T", op, x, y)})
}

// simp turns constant bool terms back into Go bools.
func (m *Machine) simp(t *Term) value {
	if t.IsConst() {
		if t.sort == SBool {
			return t.k != 0
		}
		return t.k
	}
	return t
}

func (m *Machine) ovf(t *Term, in ssa.Instruction) value {
	if t.IsConst() {
		return t.k
	}
	const lim = int64(1) << 61
	if t.lo <= -lim || t.hi >= lim {
		m.ex.overflowObligation(t, in)
	}
	return t
}

func (m *Machine) notVal(v value) value {
	switch v := v.(type) {
	case bool:
		return !v
	case *Term:
		return m.simp(m.tb.Not(v))
	}
	panic(engineError{"notVal"})
}

func (m *Machine) andVal(a, b value) value {
	if ab, ok := a.(bool); ok {
		if !ab {
			return false
		}
		return b
	}
	if bb, ok := b.(bool); ok {
		if !bb {
			return false
		}
		return a
	}
	return m.simp(m.tb.And(a.(*Term), b.(*Term)))
}

func (m *Machine) orVal(a, b value) value {
	return m.notVal(m.andVal(m.notVal(a), m.notVal(b)))
}

func (m *Machine) ifaceEq(a, b Iface) value {
	if a.t == nil || b.t == nil {
		return a.t == nil && b.t == nil
	}
	if !types.Identical(a.t, b.t) {
		return false
	}
	return m.binop(token.EQL, a.v, b.v, a.t, nil)
}

func (m *Machine) intOp(op token.Token, x, y int64, info types.BasicInfo, kind types.BasicKind, in ssa.Instruction) value {
	uns := info&types.IsUnsigned != 0
	switch op {
	case token.ADD:
		return wrapInt(x+y, kind)
	case token.SUB:
		return wrapInt(x-y, kind)
	case token.MUL:
		return wrapInt(x*y, kind)
	case token.QUO:
		if y == 0 {
			m.tpanic(in.Pos(), "integer divide by zero")
		}
		if uns {
			return wrapInt(int64(uint64(x)/uint64(y)), kind)
		}
		return wrapInt(x/y, kind)
	case token.REM:
		if y == 0 {
			m.tpanic(in.Pos(), "integer divide by zero")
		}
		if uns {
			return wrapInt(int64(uint64(x)%uint64(y)), kind)
		}
		return wrapInt(x%y, kind)
	case token.AND:
		return x & y
	case token.OR:
		return x | y
	case token.XOR:
		return wrapInt(x^y, kind)
	case token.AND_NOT:
		return x &^ y
	case token.SHL:
		return wrapInt(x<<uint64(y), kind)
	case token.SHR:
		if uns {
			return wrapInt(int64(uint64(x)>>uint64(y)), kind)
		}
		return x >> uint64(y)
	case token.EQL:
		return x == y
	case token.NEQ:
		return x != y
	case token.LSS:
		if uns {
			return uint64(x) < uint64(y)
		}
		return x < y
	case token.LEQ:
		if uns {
			return uint64(x) <= uint64(y)
		}
		return x <= y
	case token.GTR:
		if uns {
			return uint64(x) > uint64(y)
		}
		return x > y
	case token.GEQ:
		if uns {
			return uint64(x) >= uint64(y)
		}
		return x >= y
	}
	panic(unsupported("int op " + op.String()))
}

func (m *Machine) unop(in *ssa.UnOp, x value) value {
	switch in.Op {
	case token.MUL:
		return m.load(x, in.Pos())
	case token.NOT:
		return m.notVal(x)
	case token.SUB:
		switch x := x.(type) {
		case int64:
			_, k := basicInfo(in.Type())
			return wrapInt(-x, k)
		case float64:
			return -x
		case *Term:
			return m.ovf(m.tb.Neg(x), in)
		case *FRat, *FTab, *FApx:
			return m.floatBinop(token.SUB, float64(0), x, in)
		}
	case token.XOR:
		if xi, ok := x.(int64); ok {
			_, k := basicInfo(in.Type())
			return wrapInt(^xi, k)
		}
	}
	panic(unsupported(fmt.Sprintf("unop %s on %T", in.Op, x)))
}

func (m *Machine) convert(x value, from, to types.Type, in ssa.Instruction) value {
	fi, _ := basicInfo(from)
	ti, tk := basicInfo(to)
	switch {
	case fi&types.IsInteger != 0 && ti&types.IsInteger != 0:
		switch x := x.(type) {
		case int64:
			return wrapInt(x, tk)
		case *Term:
			switch tk {
			case types.Int, types.Int64:
				return x
			case types.Int32:
				if x.lo >= math.MinInt32 && x.hi <= math.MaxInt32 {
					return x
				}
			case types.Uint8:
				if x.lo >= 0 && x.hi <= 255 {
					return x
				}
			}
			panic(unsupported(fmt.Sprintf("symbolic int conversion to %v", to)))
		}
	case fi&types.IsInteger != 0 && ti&types.IsFloat != 0:
		switch x := x.(type) {
		case int64:
			return float64(x)
		case *Term:
			return m.floatFromInt(x)
		}
	case fi&types.IsFloat != 0 && ti&types.IsInteger != 0:
		return m.floatToInt(x, in)
	case fi&types.IsFloat != 0 && ti&types.IsFloat != 0:
		if tk == types.Float32 {
			panic(unsupported("float32"))
		}
		return x
	case fi&types.IsString != 0 && ti&types.IsString != 0:
		return x
	case fi&types.IsInteger != 0 && ti&types.IsString != 0:
		switch x := x.(type) {
		case int64:
			return string(rune(x))
		case *Term:
			return m.liftStr([]value{x}, func(a []value) value { return string(rune(a[0].(int64))) })
		}
	case ti&types.IsString != 0:
		// []byte / []rune -> string
		if sl, ok := from.Underlying().(*types.Slice); ok {
			s := x.(SliceV)
			_, ek := basicInfo(sl.Elem())
			if s.src != nil {
				lo, n, byt := s.srcLo, s.len, s.srcBytes
				return m.liftStr([]value{s.src}, func(a []value) value {
					str := a[0].(string)
					if byt {
						if lo+n > len(str) {
							return ""
						}
						return str[lo : lo+n]
					}
					rs := []rune(str)
					if lo+n > len(rs) {
						return ""
					}
					return string(rs[lo : lo+n])
				})
			}
			elems := make([]value, s.len)
			copy(elems, s.arr[s.off:s.off+s.len])
			build := func(a []value) value {
				if ek == types.Uint8 {
					bs := make([]byte, len(a))
					for i, e := range a {
						bs[i] = byte(e.(int64))
					}
					return string(bs)
				}
				rs := make([]rune, len(a))
				for i, e := range a {
					rs[i] = rune(e.(int64))
				}
				return string(rs)
			}
			return m.liftStr(elems, build)
		}
	case fi&types.IsString != 0:
		if sl, ok := to.Underlying().(*types.Slice); ok {
			_, ek := basicInfo(sl.Elem())
			switch s := x.(type) {
			case string:
				return stringToSlice(s, ek == types.Uint8)
			case *SymStr:
				return m.symStrToSlice(s, ek == types.Uint8, in)
			}
		}
	}
	if _, ok := to.Underlying().(*types.Pointer); ok {
		return x
	}
	panic(unsupported(fmt.Sprintf("convert %T from %v to %v", x, from, to)))
}

func stringToSlice(s string, bytes bool) SliceV {
	var arr []value
	if bytes {
		for i := 0; i < len(s); i++ {
			arr = append(arr, int64(s[i]))
		}
	} else {
		for _, r := range s {
			arr = append(arr, int64(r))
		}
	}
	if arr == nil {
		arr = []value{}
	}
	return SliceV{arr: arr, len: len(arr), cap: len(arr)}
}

var _ = utf8.RuneError
