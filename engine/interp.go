package main

// Symbolic interpreter for go/ssa.  Concrete operands are computed exactly
// as Go does; anything depending on a vInt/vBool input becomes a term.

import (
	"fmt"
	"go/constant"
	"go/token"
	"go/types"
	"os"
	"strings"
	"time"

	"golang.org/x/tools/go/ssa"
)

// panics used for control transfer inside the interpreter
type targetPanic struct {
	v   value
	msg string
	pos string
}
type pathAbort struct{ why string } // vAssume(false) / infeasible path
type engineError struct{ msg string }

type SymPtr struct { // address of slice[idx] with symbolic idx
	s   SliceV
	idx *Term
}

type undo struct {
	p    *value
	old  value
	mp   *MapV
	key  any
	had  bool
	kind uint8 // 0 cell, 1 map entry, 2 map nil flag, 4 lock counter
	held int   // number of mutexes held when the write happened
}

type frame struct {
	fn       *ssa.Function
	env      map[ssa.Value]value
	block    *ssa.BasicBlock
	prev     *ssa.BasicBlock
	defers   []func()
	depth    int
	result   value
	done     bool
	skipPhis bool
}

type Machine struct {
	prog       *ssa.Program
	tb         *TermBank
	sol        *Solver
	globals    map[*ssa.Global]*value
	trail      []undo
	fresh      map[*value]int // allocation serial while a merge region is active
	freshOn    int
	serial     int
	ex         *Explorer
	steps      int64
	maxSteps   int64
	depth      int
	funcsSeen  map[*ssa.Function]bool
	unit       *Unit
	pdom       map[*ssa.Function]map[*ssa.BasicBlock]*ssa.BasicBlock
	noMerge    bool
	mergeLoops bool
	deadline   time.Time
	skipTables bool
	apxFloats  bool
	apxSeq     int
	inPerAlt   bool
	inHook     bool
	freshMaps  map[*MapV]int
	locksHeld  int
	logWrites  int
	writeLog   []int
	liftGuard  *Term
	extern     map[string]externFn
	varSeq     map[string]int
	now        time.Time
	loopCount  map[*ssa.BasicBlock]int
}

func (m *Machine) store(p *value, v value) {
	m.trail = append(m.trail, undo{p: p, old: *p, held: m.locksHeld})
	*p = v
	if m.freshOn > 0 {
		if _, ok := m.fresh[p]; ok {
			switch v.(type) {
			case Struct, Array:
				m.regFreshDeep(p)
			}
		}
	}
}

func (m *Machine) undoTo(mark int) {
	for i := len(m.trail) - 1; i >= mark; i-- {
		u := m.trail[i]
		switch u.kind {
		case 0:
			*u.p = u.old
		case 1:
			if u.had {
				u.mp.m[u.key] = u.old
			} else {
				delete(u.mp.m, u.key)
				u.mp.order = u.mp.order[:len(u.mp.order)-1]
			}
		case 2:
			u.mp.nilm = true
			u.mp.m = nil
		case 4:
			m.locksHeld = int(u.old.(int64))
		}
	}
	m.trail = m.trail[:mark]
}

func (m *Machine) newCell(v value) *value {
	p := new(value)
	*p = v
	if m.freshOn > 0 {
		m.regFreshDeep(p)
	}
	return p
}

// regFreshDeep registers a cell and all slots stored inline in it.
func (m *Machine) regFreshDeep(p *value) {
	if m.freshOn == 0 {
		return
	}
	m.serial++
	m.fresh[p] = m.serial
	switch s := (*p).(type) {
	case Struct:
		for k := range s {
			m.regFreshDeep(&s[k])
		}
	case Array:
		for k := range s {
			m.regFreshDeep(&s[k])
		}
	}
}

func (m *Machine) global(g *ssa.Global) *value {
	if p, ok := m.globals[g]; ok {
		return p
	}
	p := new(value)
	*p = zero(g.Type().(*types.Pointer).Elem())
	m.globals[g] = p
	return p
}

func posOf(prog *ssa.Program, p token.Pos) string {
	if !p.IsValid() {
		return "?"
	}
	ps := prog.Fset.Position(p)
	f := ps.Filename
	if i := strings.LastIndex(f, "/"); i >= 0 {
		if j := strings.LastIndex(f[:i], "/"); j >= 0 {
			f = f[j+1:]
		}
	}
	return fmt.Sprintf("%s:%d", f, ps.Line)
}

func (m *Machine) tpanic(pos token.Pos, format string, a ...any) {
	panic(targetPanic{v: fmt.Sprintf(format, a...), msg: fmt.Sprintf(format, a...), pos: posOf(m.prog, pos)})
}

func (m *Machine) constVal(c *ssa.Const) value {
	if c.Value == nil {
		return zero(c.Type())
	}
	t := c.Type().Underlying()
	if b, ok := t.(*types.Basic); ok {
		switch {
		case b.Info()&types.IsBoolean != 0:
			return constant.BoolVal(c.Value)
		case b.Info()&types.IsInteger != 0:
			if b.Info()&types.IsUnsigned != 0 {
				u, _ := constant.Uint64Val(constant.ToInt(c.Value))
				return int64(u)
			}
			i, _ := constant.Int64Val(constant.ToInt(c.Value))
			return i
		case b.Info()&types.IsFloat != 0:
			f, _ := constant.Float64Val(c.Value)
			return f
		case b.Info()&types.IsString != 0:
			return constant.StringVal(c.Value)
		}
	}
	panic(unsupported("const of type " + c.Type().String()))
}

func (m *Machine) get(fr *frame, v ssa.Value) value {
	switch v := v.(type) {
	case *ssa.Const:
		return m.constVal(v)
	case *ssa.Global:
		return m.global(v)
	case *ssa.Function:
		return v
	case *ssa.Builtin:
		return Builtin{v.Name()}
	}
	if r, ok := fr.env[v]; ok {
		return r
	}
	panic(engineError{fmt.Sprintf("no value for %s (%T) in %s", v.Name(), v, fr.fn)})
}

// call runs fn with args to completion.
func (m *Machine) call(fnv value, args []value, site ssa.Instruction) value {
	switch f := fnv.(type) {
	case *ssa.Function:
		return m.callFn(f, args, nil, site)
	case *Closure:
		if f == nil {
			m.tpanic(site.Pos(), "call of nil func")
		}
		return m.callFn(f.fn, args, f.env, site)
	case Builtin:
		return m.builtin(f.name, args, site)
	}
	panic(engineError{fmt.Sprintf("call of %T", fnv)})
}

func (m *Machine) callFn(fn *ssa.Function, args []value, env []value, site ssa.Instruction) value {
	name := fn.String()
	if m.skipTables && name == "(*github.com/6tail/lunar-go/calendar.LunarYear).compute" {
		return nil
	}
	if name == "github.com/6tail/lunar-go/calendar.NewLunarYear" && !m.skipTables {
		// the year table is astronomy: always computed for a concrete year
		if t, ok := args[0].(*Term); ok {
			args[0] = m.concretize(t, fn.Pos(), "lunar year passed to NewLunarYear")
		}
	}
	if ext, ok := m.lookupExtern(fn); ok {
		return ext(m, args, site)
	}
	if r, ok := m.perAlternative(fn, args, env, site); ok {
		return r
	}
	if fn.Blocks == nil {
		panic(unsupported("no body for " + name))
	}
	if pk := fn.Package(); pk != nil && !m.interpretable(pk.Pkg.Path()) {
		if fn.Name() == "init" {
			return nil
		}
		panic(unsupported("call into non-modelled package function " + name))
	}
	m.funcsSeen[fn] = true
	m.depth++
	if m.depth > 400 {
		panic(unsupported("call depth > 400"))
	}
	defer func() { m.depth-- }()
	fr := &frame{fn: fn, env: make(map[ssa.Value]value, 32), depth: m.depth}
	for i, p := range fn.Params {
		fr.env[p] = args[i]
	}
	for i, fv := range fn.FreeVars {
		fr.env[fv] = env[i]
	}
	fr.block = fn.Blocks[0]
	return m.runFrame(fr)
}

type perAltAbort struct{}

// perAlternative: a call into the table-lookup package LunarUtil with choice
// strings (or small-range ints) among its arguments is evaluated once per
// alternative by interpreting the real callee on concrete values, and the
// results are merged under the alternatives' guards.  No solver query is
// needed; the callee must not branch on anything symbolic (else: fall back).
func (m *Machine) perAlternative(fn *ssa.Function, args []value, env []value, site ssa.Instruction) (res value, ok bool) {
	if m.inPerAlt || fn.Pkg == nil || fn.Blocks == nil {
		return nil, false
	}
	switch fn.Pkg.Pkg.Path() {
	case "github.com/6tail/lunar-go/LunarUtil", "github.com/6tail/lunar-go/FotoUtil", "github.com/6tail/lunar-go/TaoUtil", "github.com/6tail/lunar-go/HolidayUtil":
	default:
		if fn.Name() != "convertJieQi" && fn.Name() != "vhHashStr" {
			return nil, false
		}
	}
	sym := false
	for _, a := range args {
		switch x := a.(type) {
		case *SymStr:
			if _, ok := m.altsOfCheap(x); !ok {
				return nil, false
			}
			sym = true
		case *Term:
			if x.sort != SInt || x.lo <= -inf || x.hi >= inf || x.hi-x.lo > 64 {
				return nil, false
			}
			sym = true
		case int64, string, bool, float64:
		case SliceV:
			for _, e := range x.arr[x.off : x.off+x.len] {
				if isSymbolic(e) {
					return nil, false
				}
			}
		default:
			return nil, false
		}
	}
	if !sym {
		return nil, false
	}
	mark := len(m.trail)
	defer func() {
		m.inPerAlt = false
		if r := recover(); r != nil {
			if _, isAbort := r.(perAltAbort); isAbort {
				m.undoTo(mark)
				res, ok = nil, false
				return
			}
			if _, isUns := r.(unsupported); isUns {
				m.undoTo(mark)
				res, ok = nil, false
				return
			}
			panic(r)
		}
	}()
	m.inPerAlt = true
	type altPanic struct {
		g *Term
		p targetPanic
	}
	var pans []altPanic
	type ptrAlt struct {
		g *Term
		p *value
	}
	var ptrs []ptrAlt
	r := m.liftStr(args, func(conc []value) (out value) {
		before := len(m.trail)
		g := m.liftGuard
		defer func() {
			if rr := recover(); rr != nil {
				if tp, isTP := rr.(targetPanic); isTP {
					// the callee panics on this alternative: becomes a forked panic path if the alternative is feasible
					pans = append(pans, altPanic{g, tp})
					out = altSkip{}
					return
				}
				panic(rr)
			}
		}()
		v := m.callFn(fn, conc, env, site)
		if len(m.trail) != before {
			// writes are only tolerated to objects the callee allocated itself; be conservative
			for _, u := range m.trail[before:] {
				if u.kind != 0 {
					panic(perAltAbort{})
				}
			}
		}
		switch p := v.(type) {
		case int64, string, bool:
			return v
		case *value:
			// nil or a freshly built object (e.g. *Holiday): merged structurally below
			ptrs = append(ptrs, ptrAlt{g, p})
			return altSkip{}
		}
		panic(perAltAbort{})
	})
	m.inPerAlt = false
	if len(ptrs) > 0 {
		if _, none := r.(altSkip); !none {
			panic(perAltAbort{})
		}
		for _, ap := range pans {
			if m.decide(ap.g) {
				panic(ap.p)
			}
		}
		var nilG, gs []*Term
		var vals []value
		for _, pa := range ptrs {
			if pa.p == nil {
				nilG = append(nilG, pa.g)
			} else {
				gs = append(gs, pa.g)
				vals = append(vals, pa.p)
			}
		}
		if len(vals) == 0 {
			return (*value)(nil), true
		}
		if len(nilG) > 0 && m.decide(m.tb.Or(nilG...)) {
			return (*value)(nil), true
		}
		if len(nilG) == 0 {
			m.assume(m.simp(m.tb.Or(gs...)))
		}
		mg := &merger{m: m, memo: map[string]value{}, trustFresh: true}
		for range vals {
			mg.overlays = append(mg.overlays, map[*value]value{})
		}
		defer func() {
			if rr := recover(); rr != nil {
				if _, isMF := rr.(mergeFail); isMF {
					panic(unsupported("per-alternative results could not be merged"))
				}
				panic(rr)
			}
		}()
		return mg.merge(gs, vals), true
	}
	for _, ap := range pans {
		if m.decide(ap.g) {
			panic(ap.p)
		}
	}
	if _, none := r.(altSkip); none {
		panic(pathAbort{"no feasible non-panicking alternative"})
	}
	return r, true
}

func (m *Machine) interpretable(path string) bool {
	return strings.HasPrefix(path, "github.com/6tail/lunar-go") || path == "container/list"
}

// runFrame executes until the frame returns; handles defers on panic.
func (m *Machine) runFrame(fr *frame) (res value) {
	defer func() {
		if len(fr.defers) > 0 && !fr.done {
			// panicking: run deferred calls, then continue panicking
			r := recover()
			m.runDefers(fr)
			if r != nil {
				panic(r)
			}
		}
	}()
	m.runUntil(fr, nil)
	fr.done = true
	return fr.result
}

func (m *Machine) runDefers(fr *frame) {
	for len(fr.defers) > 0 {
		d := fr.defers[len(fr.defers)-1]
		fr.defers = fr.defers[:len(fr.defers)-1]
		d()
	}
}

type stopKind int

const (
	stopReturn stopKind = iota
	stopJoin
)

// runUntil executes blocks until the frame returns (stopReturn) or control
// is about to enter block `join` (stopJoin; fr.prev/fr.block set for phis).
func (m *Machine) runUntil(fr *frame, join *ssa.BasicBlock) stopKind {
	first := true
	for {
		if fr.block == join && !first {
			return stopJoin
		}
		first = false
		b := fr.block
		// phis evaluated simultaneously
		i := 0
		if fr.skipPhis {
			fr.skipPhis = false
			for i < len(b.Instrs) {
				if _, ok := b.Instrs[i].(*ssa.Phi); !ok {
					break
				}
				i++
			}
		} else if len(b.Instrs) > 0 {
			if _, ok := b.Instrs[0].(*ssa.Phi); ok {
				var idx int
				for k, p := range b.Preds {
					if p == fr.prev {
						idx = k
						break
					}
				}
				var vals []value
				for ; i < len(b.Instrs); i++ {
					phi, ok := b.Instrs[i].(*ssa.Phi)
					if !ok {
						break
					}
					vals = append(vals, m.get(fr, phi.Edges[idx]))
				}
				for k := 0; k < i; k++ {
					fr.env[b.Instrs[k].(*ssa.Phi)] = vals[k]
				}
			}
		}
		for ; i < len(b.Instrs); i++ {
			m.steps++
			if m.steps > m.maxSteps {
				panic(unsupported("step budget exceeded"))
			}
			switch in := b.Instrs[i].(type) {
			case *ssa.Jump:
				fr.prev, fr.block = b, b.Succs[0]
			case *ssa.If:
				c := m.get(fr, in.Cond)
				var tk bool
				switch c := c.(type) {
				case bool:
					tk = c
				case *Term:
					if c.IsConst() {
						tk = c.k != 0
					} else {
						if m.branch(fr, in, c) {
							// region merged; fr.block/prev already set to the join
							if fr.done {
								return stopReturn
							}
							goto nextBlock
						}
						tk = m.ex.lastDecision
					}
				default:
					panic(engineError{fmt.Sprintf("if on %T", c)})
				}
				if tk {
					fr.prev, fr.block = b, b.Succs[0]
				} else {
					fr.prev, fr.block = b, b.Succs[1]
				}
			case *ssa.Return:
				switch len(in.Results) {
				case 0:
					fr.result = nil
				case 1:
					fr.result = m.get(fr, in.Results[0])
				default:
					t := make(Tuple, len(in.Results))
					for k, r := range in.Results {
						t[k] = m.get(fr, r)
					}
					fr.result = t
				}
				fr.done = true
				m.runDefers(fr)
				return stopReturn
			case *ssa.Panic:
				v := m.get(fr, in.X)
				msg := fmt.Sprint(describe(v))
				panic(targetPanic{v: v, msg: msg, pos: posOf(m.prog, in.Pos())})
			default:
				m.exec(fr, in)
			}
		}
	nextBlock:
		if join == nil {
			m.loopGuard(fr)
		}
	}
}

func (m *Machine) loopGuard(fr *frame) {}

func describe(v value) any {
	switch v := v.(type) {
	case Iface:
		return describe(v.v)
	case *SymStr:
		return v.String()
	}
	return v
}

func (m *Machine) exec(fr *frame, in ssa.Instruction) {
	switch in := in.(type) {
	case *ssa.DebugRef:
	case *ssa.Alloc:
		p := m.newCell(zero(in.Type().(*types.Pointer).Elem()))
		fr.env[in] = p
	case *ssa.BinOp:
		fr.env[in] = m.binop(in.Op, m.get(fr, in.X), m.get(fr, in.Y), in.X.Type(), in)
	case *ssa.UnOp:
		fr.env[in] = m.unop(in, m.get(fr, in.X))
	case *ssa.Call:
		fr.env[in] = m.doCall(fr, &in.Call, in)
	case *ssa.Defer:
		fnv, args := m.prepareCall(fr, &in.Call, in)
		fr.defers = append(fr.defers, func() { m.call(fnv, args, in) })
	case *ssa.RunDefers:
		m.runDefers(fr)
	case *ssa.ChangeInterface:
		fr.env[in] = m.get(fr, in.X)
	case *ssa.ChangeType:
		fr.env[in] = m.get(fr, in.X)
	case *ssa.Convert:
		fr.env[in] = m.convert(m.get(fr, in.X), in.X.Type(), in.Type(), in)
	case *ssa.MakeInterface:
		fr.env[in] = Iface{t: in.X.Type(), v: m.get(fr, in.X)}
	case *ssa.MakeClosure:
		c := &Closure{fn: in.Fn.(*ssa.Function)}
		for _, b := range in.Bindings {
			c.env = append(c.env, m.get(fr, b))
		}
		fr.env[in] = c
	case *ssa.MakeMap:
		mp := &MapV{m: map[any]value{}}
		if m.freshOn > 0 && m.freshMaps != nil {
			m.serial++
			m.freshMaps[mp] = m.serial
		}
		fr.env[in] = mp
	case *ssa.MakeSlice:
		n := m.concInt(m.get(fr, in.Len), in, "make len")
		c := m.concInt(m.get(fr, in.Cap), in, "make cap")
		et := in.Type().Underlying().(*types.Slice).Elem()
		arr := make([]value, c)
		for i := range arr {
			arr[i] = zero(et)
			m.regFresh(&arr[i])
		}
		fr.env[in] = SliceV{arr: arr, off: 0, len: int(n), cap: int(c)}
	case *ssa.Slice:
		fr.env[in] = m.slice(fr, in)
	case *ssa.Extract:
		fr.env[in] = m.get(fr, in.Tuple).(Tuple)[in.Index]
	case *ssa.Field:
		fr.env[in] = copyVal(m.get(fr, in.X).(Struct)[in.Field])
	case *ssa.FieldAddr:
		p := m.get(fr, in.X).(*value)
		if p == nil {
			m.tpanic(in.Pos(), "nil pointer dereference")
		}
		fr.env[in] = &(*p).(Struct)[in.Field]
	case *ssa.Index:
		fr.env[in] = m.index(fr, in)
	case *ssa.IndexAddr:
		fr.env[in] = m.indexAddr(fr, in)
	case *ssa.Lookup:
		fr.env[in] = m.lookup(fr, in)
	case *ssa.MapUpdate:
		m.mapUpdate(m.get(fr, in.Map).(*MapV), m.get(fr, in.Key), m.get(fr, in.Value), in)
	case *ssa.Range:
		fr.env[in] = m.rangeStart(m.get(fr, in.X), in)
	case *ssa.Next:
		fr.env[in] = m.rangeNext(m.get(fr, in.Iter), in)
	case *ssa.Store:
		m.storeTo(m.get(fr, in.Addr), copyVal(m.get(fr, in.Val)), in)
	case *ssa.TypeAssert:
		fr.env[in] = m.typeAssert(in, m.get(fr, in.X))
	default:
		panic(unsupported(fmt.Sprintf("instruction %T at %s", in, posOf(m.prog, in.Pos()))))
	}
}

func (m *Machine) regFresh(p *value) {
	if m.freshOn > 0 {
		m.serial++
		m.fresh[p] = m.serial
	}
}

func (m *Machine) concInt(v value, in ssa.Instruction, what string) int64 {
	switch v := v.(type) {
	case int64:
		return v
	case *Term:
		if v.IsConst() {
			return v.k
		}
		// concretise by forking over feasible values
		return m.concretize(v, in.Pos(), what)
	}
	panic(engineError{fmt.Sprintf("concInt %T (%s)", v, what)})
}

func (m *Machine) storeTo(addr value, v value, in ssa.Instruction) {
	switch p := addr.(type) {
	case *value:
		if p == nil {
			m.tpanic(in.Pos(), "nil pointer dereference (store)")
		}
		m.store(p, v)
	case *SymPtr:
		for j := 0; j < p.s.len; j++ {
			cell := &p.s.arr[p.s.off+j]
			g := m.tb.Eq(p.idx, m.tb.Int(int64(j)))
			m.store(cell, m.iteVal(g, v, *cell))
		}
	default:
		panic(engineError{fmt.Sprintf("store to %T", addr)})
	}
}

func (m *Machine) load(addr value, pos token.Pos) value {
	switch p := addr.(type) {
	case *value:
		if p == nil {
			m.tpanic(pos, "nil pointer dereference")
		}
		return copyVal(*p)
	case *SymPtr:
		return m.symIndex(p.s, p.idx, pos)
	}
	panic(engineError{fmt.Sprintf("load from %T", addr)})
}

// symIndex reads s[idx] for a symbolic, already bounds-checked idx.
func (m *Machine) symIndex(s SliceV, idx *Term, pos token.Pos) value {
	elems := s.arr[s.off : s.off+s.len]
	allInt, allStr, allBool := true, true, true
	for _, e := range elems {
		switch e.(type) {
		case int64:
			allStr, allBool = false, false
		case string:
			allInt, allBool = false, false
		case bool:
			allInt, allStr = false, false
		default:
			allInt, allStr, allBool = false, false, false
		}
	}
	lo, hi := idx.lo, idx.hi
	if lo < 0 {
		lo = 0
	}
	if hi > int64(len(elems)-1) {
		hi = int64(len(elems) - 1)
	}
	switch {
	case allInt:
		vals := make([]int64, len(elems))
		for i, e := range elems {
			vals[i] = e.(int64)
		}
		return m.tb.Table(idx, 0, vals)
	case allStr:
		var alts []strAlt
		for i := lo; i <= hi; i++ {
			alts = append(alts, strAlt{m.tb.Eq(idx, m.tb.Int(i)), elems[i].(string)})
		}
		return m.mkChoice(alts)
	case allBool:
		var ts []*Term
		for i := lo; i <= hi; i++ {
			if elems[i].(bool) {
				ts = append(ts, m.tb.Eq(idx, m.tb.Int(i)))
			}
		}
		return m.tb.Or(ts...)
	}
	// general: scalar symbolic elements -> ite chain; otherwise concretise
	mergeable := true
	for _, e := range elems {
		switch e.(type) {
		case int64, *Term, bool:
		default:
			mergeable = false
		}
	}
	if mergeable {
		var r value = elems[hi]
		for i := hi - 1; i >= lo; i-- {
			r = m.iteVal(m.tb.Eq(idx, m.tb.Int(i)), elems[i], r)
		}
		return r
	}
	k := m.concretize(idx, pos, "index of non-scalar slice")
	return copyVal(elems[k])
}

func (m *Machine) toTerm(v value) *Term {
	switch v := v.(type) {
	case *Term:
		return v
	case int64:
		return m.tb.Int(v)
	case bool:
		return m.tb.Bool(v)
	}
	panic(engineError{fmt.Sprintf("toTerm %T", v)})
}

// iteVal builds ite(g, a, b) over scalar values.
func (m *Machine) iteVal(g *Term, a, b value) value {
	if g.IsConst() {
		if g.k != 0 {
			return a
		}
		return b
	}
	if !isSymbolic(a) && !isSymbolic(b) {
		switch x := a.(type) {
		case int64, bool, string, float64:
			if x == b {
				return a
			}
		case *value:
			if y, ok := b.(*value); ok && x == y {
				return a
			}
		}
	}
	switch a.(type) {
	case int64, bool, *Term:
		switch b.(type) {
		case int64, bool, *Term:
			return m.tb.Ite(g, m.toTerm(a), m.toTerm(b))
		}
	case string, *SymStr:
		switch b.(type) {
		case string, *SymStr:
			return m.iteStr(g, a, b)
		}
	case float64, *FRat, *FTab, *FApx, FUnknown:
		return m.iteFloat(g, a, b)
	}
	panic(mergeFail{fmt.Sprintf("cannot ite %T / %T", a, b)})
}

type mergeFail struct{ why string }

func (m *Machine) prepareCall(fr *frame, c *ssa.CallCommon, site ssa.Instruction) (value, []value) {
	var args []value
	var fnv value
	if c.IsInvoke() {
		recv := m.get(fr, c.Value)
		ifc, ok := recv.(Iface)
		if !ok || ifc.t == nil {
			m.tpanic(site.Pos(), "invoke on nil interface")
		}
		meth := m.prog.LookupMethod(ifc.t, c.Method.Pkg(), c.Method.Name())
		if meth == nil {
			panic(unsupported("method lookup failed: " + c.Method.Name()))
		}
		fnv = meth
		args = append(args, ifc.v)
	} else {
		fnv = m.get(fr, c.Value)
	}
	for _, a := range c.Args {
		args = append(args, copyVal(m.get(fr, a)))
	}
	return fnv, args
}

func (m *Machine) doCall(fr *frame, c *ssa.CallCommon, site ssa.Instruction) value {
	fnv, args := m.prepareCall(fr, c, site)
	return m.call(fnv, args, site)
}

func (m *Machine) builtin(name string, args []value, site ssa.Instruction) value {
	switch name {
	case "len":
		switch x := args[0].(type) {
		case string:
			return int64(len(x))
		case *SymStr:
			return m.strLen(x)
		case SliceV:
			return int64(x.len)
		case *MapV:
			return int64(len(x.m))
		case Array:
			return int64(len(x))
		case *value:
			return int64(len((*x).(Array)))
		}
	case "cap":
		switch x := args[0].(type) {
		case SliceV:
			return int64(x.cap)
		}
	case "append":
		s := args[0].(SliceV)
		var t SliceV
		switch x := args[1].(type) {
		case SliceV:
			t = x
		case string:
			for i := 0; i < len(x); i++ {
				t.arr = append(t.arr, int64(x[i]))
			}
			t.len, t.cap = len(t.arr), len(t.arr)
		default:
			panic(unsupported("append arg"))
		}
		if t.len == 0 {
			return s
		}
		if s.len+t.len <= s.cap {
			for i := 0; i < t.len; i++ {
				m.store(&s.arr[s.off+s.len+i], copyVal(t.arr[t.off+i]))
			}
			s.len += t.len
			return s
		}
		nc := 2*s.cap + t.len
		arr := make([]value, nc)
		for i := 0; i < s.len; i++ {
			arr[i] = copyVal(s.arr[s.off+i])
		}
		for i := 0; i < t.len; i++ {
			arr[s.len+i] = copyVal(t.arr[t.off+i])
		}
		et := site.(*ssa.Call).Type().Underlying().(*types.Slice).Elem()
		for i := s.len + t.len; i < nc; i++ {
			arr[i] = zero(et)
		}
		for i := range arr {
			m.regFresh(&arr[i])
		}
		return SliceV{arr: arr, off: 0, len: s.len + t.len, cap: nc}
	case "copy":
		d := args[0].(SliceV)
		s := args[1].(SliceV)
		n := d.len
		if s.len < n {
			n = s.len
		}
		for i := 0; i < n; i++ {
			m.store(&d.arr[d.off+i], copyVal(s.arr[s.off+i]))
		}
		return int64(n)
	case "delete":
		mp := args[0].(*MapV)
		k := m.mapKey(args[1])
		if old, ok := mp.m[k]; ok {
			// deletion breaks insertion order bookkeeping: rebuild order
			m.trail = append(m.trail, undo{kind: 3})
			_ = old
			panic(unsupported("map delete"))
		}
		return nil
	case "print", "println":
		return nil
	case "recover":
		return Iface{}
	case "min", "max":
		r := args[0]
		for _, a := range args[1:] {
			var c value
			if name == "min" {
				c = m.binop(token.LSS, a, r, nil, site)
			} else {
				c = m.binop(token.GTR, a, r, nil, site)
			}
			switch c := c.(type) {
			case bool:
				if c {
					r = a
				}
			case *Term:
				r = m.iteVal(c, a, r)
			}
		}
		return r
	}
	panic(unsupported("builtin " + name))
}

func (m *Machine) slice(fr *frame, in *ssa.Slice) value {
	x := m.get(fr, in.X)
	var lo, hi int64 = 0, -1
	if in.Low != nil {
		lo = m.concInt(m.get(fr, in.Low), in, "slice low")
	}
	if in.High != nil {
		hi = m.concInt(m.get(fr, in.High), in, "slice high")
	}
	switch x := x.(type) {
	case string:
		if hi < 0 {
			hi = int64(len(x))
		}
		if lo < 0 || hi > int64(len(x)) || lo > hi {
			m.tpanic(in.Pos(), "slice bounds out of range [%d:%d] with length %d", lo, hi, len(x))
		}
		return x[lo:hi]
	case *SymStr:
		return m.strSlice(x, lo, hi, in)
	case SliceV:
		if hi < 0 {
			hi = int64(x.len)
		}
		if lo < 0 || hi > int64(x.cap) || lo > hi {
			m.tpanic(in.Pos(), "slice bounds out of range [%d:%d] with capacity %d", lo, hi, x.cap)
		}
		return SliceV{arr: x.arr, off: x.off + int(lo), len: int(hi - lo), cap: x.cap - int(lo), src: x.src, srcBytes: x.srcBytes, srcLo: x.srcLo + int(lo)}
	case *value: // pointer to array
		arr := (*x).(Array)
		if hi < 0 {
			hi = int64(len(arr))
		}
		if lo < 0 || hi > int64(len(arr)) || lo > hi {
			m.tpanic(in.Pos(), "slice bounds out of range")
		}
		return SliceV{arr: []value(arr), off: int(lo), len: int(hi - lo), cap: len(arr) - int(lo)}
	}
	panic(unsupported(fmt.Sprintf("slice of %T", x)))
}

func (m *Machine) boundsCheck(idx value, n int, pos token.Pos) value {
	switch i := idx.(type) {
	case int64:
		if i < 0 || i >= int64(n) {
			m.tpanic(pos, "index out of range [%d] with length %d", i, n)
		}
		return i
	case *Term:
		if i.IsConst() {
			return m.boundsCheck(i.k, n, pos)
		}
		ok := m.tb.And(m.tb.Le(m.tb.Int(0), i), m.tb.Lt(i, m.tb.Int(int64(n))))
		if !m.decide(ok) {
			m.tpanic(pos, "index out of range [%v] with length %d", i, n)
		}
		return i
	}
	panic(engineError{fmt.Sprintf("index %T", idx)})
}

func (m *Machine) index(fr *frame, in *ssa.Index) value {
	x := m.get(fr, in.X)
	idx := m.get(fr, in.Index)
	switch x := x.(type) {
	case string:
		i := m.boundsCheck(idx, len(x), in.Pos())
		if t, ok := i.(*Term); ok {
			vals := make([]int64, len(x))
			for k := range vals {
				vals[k] = int64(x[k])
			}
			return m.tb.Table(t, 0, vals)
		}
		return int64(x[i.(int64)])
	case *SymStr:
		return m.strIndex(x, idx, in)
	case Array:
		i := m.boundsCheck(idx, len(x), in.Pos())
		if t, ok := i.(*Term); ok {
			return m.symIndex(SliceV{arr: x, len: len(x), cap: len(x)}, t, in.Pos())
		}
		return copyVal(x[i.(int64)])
	}
	panic(unsupported(fmt.Sprintf("index of %T", x)))
}

func (m *Machine) indexAddr(fr *frame, in *ssa.IndexAddr) value {
	x := m.get(fr, in.X)
	idx := m.get(fr, in.Index)
	var s SliceV
	switch x := x.(type) {
	case SliceV:
		s = x
	case *value:
		if x == nil {
			m.tpanic(in.Pos(), "nil pointer dereference")
		}
		arr := (*x).(Array)
		s = SliceV{arr: arr, len: len(arr), cap: len(arr)}
	default:
		panic(unsupported(fmt.Sprintf("indexaddr of %T", x)))
	}
	i := m.boundsCheck(idx, s.len, in.Pos())
	if t, ok := i.(*Term); ok {
		return &SymPtr{s: s, idx: t}
	}
	return &s.arr[s.off+int(i.(int64))]
}

func (m *Machine) mapKey(k value) any {
	switch k := k.(type) {
	case int64, string, bool, float64:
		return k
	case Iface:
		return struct {
			t string
			v any
		}{k.t.String(), m.mapKey(k.v)}
	}
	panic(unsupported(fmt.Sprintf("map key %T", k)))
}

func (m *Machine) mapUpdate(mp *MapV, k, v value, in ssa.Instruction) {
	if mp.nilm {
		m.tpanic(in.Pos(), "assignment to entry in nil map")
	}
	if isSymbolic(k) {
		panic(unsupported("map update with symbolic key"))
	}
	key := m.mapKey(k)
	old, had := mp.m[key]
	m.trail = append(m.trail, undo{kind: 1, mp: mp, key: key, old: old, had: had, held: m.locksHeld})
	if !had {
		mp.order = append(mp.order, key)
	}
	mp.m[key] = copyVal(v)
}

func (m *Machine) lookup(fr *frame, in *ssa.Lookup) value {
	x := m.get(fr, in.X)
	k := m.get(fr, in.Index)
	if s, ok := x.(string); ok { // string index via Lookup
		i := m.boundsCheck(k, len(s), in.Pos())
		if t, ok := i.(*Term); ok {
			vals := make([]int64, len(s))
			for j := range vals {
				vals[j] = int64(s[j])
			}
			return m.tb.Table(t, 0, vals)
		}
		return int64(s[i.(int64)])
	}
	if s, ok := x.(*SymStr); ok {
		return m.strIndex(s, k, in)
	}
	mp := x.(*MapV)
	vt := in.X.Type().Underlying().(*types.Map).Elem()
	var v value
	var okv value
	if isSymbolic(k) {
		v, okv = m.symLookup(mp, k, vt, in)
	} else {
		var found bool
		if !mp.nilm {
			v, found = mp.m[m.mapKey(k)]
		}
		if !found {
			v = zero(vt)
		}
		okv = found
	}
	if in.CommaOk {
		return Tuple{copyVal(v), okv}
	}
	return copyVal(v)
}

// symLookup: key is *SymStr or *Term; compares against every concrete key.
func (m *Machine) symLookup(mp *MapV, k value, vt types.Type, in ssa.Instruction) (value, value) {
	type hit struct {
		g *Term
		v value
	}
	var hits []hit
	for _, key := range mp.order {
		var g *Term
		switch kk := k.(type) {
		case *SymStr:
			ks, ok := key.(string)
			if !ok {
				panic(unsupported("symbolic string key on non-string map"))
			}
			g = m.strEqConst(kk, ks)
		case *Term:
			ki, ok := key.(int64)
			if !ok {
				panic(unsupported("symbolic int key on non-int map"))
			}
			g = m.tb.Eq(kk, m.tb.Int(ki))
		default:
			panic(unsupported(fmt.Sprintf("symbolic map key %T", k)))
		}
		if g.IsConst() && g.k == 0 {
			continue
		}
		hits = append(hits, hit{g, mp.m[key]})
	}
	var gs []*Term
	for _, h := range hits {
		gs = append(gs, h.g)
	}
	found := m.tb.Or(gs...)
	z := zero(vt)
	// mergeable scalar values?
	scalar := true
	for _, h := range hits {
		switch h.v.(type) {
		case int64, bool, string, *Term, *SymStr, float64:
		default:
			scalar = false
		}
	}
	if scalar {
		defer func() {
			if r := recover(); r != nil {
				if _, ok := r.(mergeFail); ok {
					panic(unsupported("map lookup merge"))
				}
				panic(r)
			}
		}()
		r := z
		for i := len(hits) - 1; i >= 0; i-- {
			r = m.iteVal(hits[i].g, hits[i].v, r)
		}
		return r, found
	}
	// non-scalar: fork over entries
	for _, h := range hits {
		if m.decide(h.g) {
			return h.v, true
		}
	}
	return z, false
}

type rangeIter struct {
	kind int // 0 map, 1 string
	mp   *MapV
	keys []any
	s    string
	i    int
}

func (m *Machine) rangeStart(x value, in ssa.Instruction) value {
	switch x := x.(type) {
	case *MapV:
		keys := append([]any(nil), x.order...)
		return &rangeIter{kind: 0, mp: x, keys: keys}
	case string:
		return &rangeIter{kind: 1, s: x}
	}
	panic(unsupported(fmt.Sprintf("range over %T", x)))
}

func (m *Machine) rangeNext(it value, in *ssa.Next) value {
	r := it.(*rangeIter)
	// NOTE: iterator position is interpreter state outside the trail; iterators
	// are created and consumed inside one path segment, and re-execution
	// re-creates them.
	if r.kind == 0 {
		for r.i < len(r.keys) {
			k := r.keys[r.i]
			r.i++
			if v, ok := r.mp.m[k]; ok {
				return Tuple{true, unmapKey(k), copyVal(v)}
			}
		}
		return Tuple{false, nil, nil}
	}
	if r.i >= len(r.s) {
		return Tuple{false, int64(0), int64(0)}
	}
	for i, c := range r.s[r.i:] {
		idx := r.i + i
		sz := len(string(c))
		if c == 0xFFFD {
			sz = 1
		}
		r.i = idx + sz
		return Tuple{true, int64(idx), int64(c)}
	}
	return Tuple{false, int64(0), int64(0)}
}

func unmapKey(k any) value {
	return k
}

func (m *Machine) typeAssert(in *ssa.TypeAssert, x value) value {
	ifc := x.(Iface)
	var ok bool
	var res value
	if it, isIface := in.AssertedType.Underlying().(*types.Interface); isIface {
		if ifc.t != nil {
			ok = types.Implements(ifc.t, it)
		}
		res = ifc
		if !ok {
			res = Iface{}
		}
	} else {
		ok = ifc.t != nil && types.Identical(ifc.t, in.AssertedType)
		if ok {
			res = ifc.v
		} else {
			res = zero(in.AssertedType)
		}
	}
	if in.CommaOk {
		return Tuple{res, ok}
	}
	if !ok {
		have := "nil"
		if ifc.t != nil {
			have = ifc.t.String()
		}
		m.tpanic(in.Pos(), "interface conversion: interface is %s, not %s", have, in.AssertedType)
	}
	return res
}

func (m *Machine) initPackages(pkgs []*ssa.Package) {
	done := map[*ssa.Package]bool{}
	var initPkg func(p *ssa.Package)
	initPkg = func(p *ssa.Package) {
		if done[p] {
			return
		}
		done[p] = true
		if !m.interpretable(p.Pkg.Path()) {
			return
		}
		for _, imp := range p.Pkg.Imports() {
			if ip := m.prog.Package(imp); ip != nil {
				initPkg(ip)
			}
		}
		if fn := p.Func("init"); fn != nil {
			m.callInit(fn)
		}
	}
	for _, p := range pkgs {
		initPkg(p)
	}
}

// callInit runs a package initialiser, skipping calls to initialisers of
// packages we do not interpret.
func (m *Machine) callInit(fn *ssa.Function) {
	defer func() {
		if r := recover(); r != nil {
			fmt.Fprintf(os.Stderr, "init %s failed: %v\n", fn, r)
			panic(r)
		}
	}()
	m.callFn(fn, nil, nil, nil)
}
