package main

import "go/token"

const (
	tokADD = token.ADD
	tokMUL = token.MUL
	tokQUO = token.QUO
	tokSUB = token.SUB
)
