package main

// FApx: sound over-approximation of inexact float64 arithmetic (opt-in per harness through vApproxFloats).
//
// A value v of this kind satisfies   | v - num/den | <= err * 2^-40   on every model, where num and err are Int terms and
// den a positive constant.  Every IEEE operation result is the exact real result times (1+d), |d| <= 2^-53; the bound
// is propagated as a LINEAR term (relative part: ceil(|num| / (den*2^13)) units, so that an exact zero stays exact).
// int(v) and math.Round(v) become fresh Int variables constrained by the two-sided bound.  The encoding
// over-approximates the real code: "unsat" carries over to the real floats; a model may be spurious and is only
// reported if it reproduces natively.

import (
	"fmt"
	"go/token"
	"math"
	"math/big"
	"os"

	"golang.org/x/tools/go/ssa"
)

const apxShift = 40 // error unit 2^-40

type FApx struct {
	num *Term
	den int64
	err *Term
	// single: the value is ONE correctly rounded operation on exact operands, i.e. fl(num/den): since rounding is
	// monotone and integers below 2^53 are representable, fl(v) can never cross an integer that v does not cross
	single bool
	// lb: optional exact integer lower bound (value >= lb on every model), derived from monotonicity of rounding:
	// fl(a+b) >= k whenever a+b >= k for a representable k.  Keeps exact zeros and exact integers exact.
	lb *Term
}

// exact integer lower bound of an operand, if one is known
func (m *Machine) lbOf(v value, a *FApx) *Term {
	switch x := v.(type) {
	case *FApx:
		return x.lb
	case *FRat:
		if x.den == 1 {
			return x.num
		}
		if x.num.lo >= 0 {
			return m.tb.Int(0)
		}
	case float64:
		if math.Abs(x) < 1e15 {
			return m.tb.Int(int64(math.Floor(x)))
		}
	}
	return nil
}

// exact integer value of an operand, if it is integer-valued
func (m *Machine) intValOf(v value) *Term {
	switch x := v.(type) {
	case *FRat:
		if x.den == 1 {
			return x.num
		}
	case float64:
		if math.Abs(x) < 1e15 && x == math.Floor(x) {
			return m.tb.Int(int64(x))
		}
	}
	return nil
}

func isExactOperand(v value, res float64) bool {
	switch v.(type) {
	case *FRat:
		return true
	case float64:
		return res == 0
	}
	return false
}

func gcd64(a, b int64) int64 {
	a, b = abs64(a), abs64(b)
	for b != 0 {
		a, b = b, a%b
	}
	return a
}

func mulOK(a, b int64) (int64, bool) {
	if a == 0 || b == 0 {
		return 0, true
	}
	c := a * b
	if c/b != a || abs64(c) >= inf>>2 {
		return 0, false
	}
	return c, true
}

// constant as a small rational p/q plus absolute residual |c - p/q| <= res
func ratApprox(c float64) (p, q int64, res float64, ok bool) {
	if math.IsNaN(c) || math.IsInf(c, 0) || math.Abs(c) > 1e12 {
		return 0, 0, 0, false
	}
	cr := new(big.Rat).SetFloat64(c)
	var qs []int64
	for k := 0; k <= 20; k++ {
		qs = append(qs, int64(1)<<k)
	}
	for _, d := range []int64{10, 100, 1000, 10000, 100000, 1000000, 3, 60, 3600, 86400} {
		qs = append(qs, d)
	}
	for _, d := range qs {
		pf := math.Round(c * float64(d))
		if math.Abs(pf) > 1e15 {
			continue
		}
		pr := new(big.Rat).SetFrac(big.NewInt(int64(pf)), big.NewInt(d))
		diff := new(big.Rat).Sub(cr, pr)
		f, _ := diff.Float64()
		if math.Abs(f) <= math.Abs(c)*math.Ldexp(1, -49) {
			return int64(pf), d, math.Abs(f) * 1.0000001, true
		}
	}
	return 0, 0, 0, false
}

func (m *Machine) toApx(v value) (*FApx, float64, bool) {
	switch v := v.(type) {
	case *FApx:
		return v, 0, true
	case *FRat:
		return &FApx{num: v.num, den: v.den, err: m.tb.Int(0)}, 0, true
	case float64:
		p, q, res, ok := ratApprox(v)
		if !ok {
			return nil, 0, false
		}
		return &FApx{num: m.tb.Int(p), den: q, err: m.tb.Int(0)}, res, true
	}
	return nil, 0, false
}

// magnitude bound of the true value
func (a *FApx) maxAbs() (float64, bool) {
	if a.num.lo <= -inf || a.num.hi >= inf || a.err.hi >= inf {
		return 0, false
	}
	return math.Max(math.Abs(float64(a.num.lo)), math.Abs(float64(a.num.hi)))/float64(a.den) + float64(a.err.hi)*math.Ldexp(1, -apxShift), true
}

func unitsOf(x float64) (int64, bool) {
	u := math.Ceil(x * math.Ldexp(1, apxShift))
	if u < 0 || u > 1e15 {
		return 0, false
	}
	return int64(u), true
}

// rounding error of one IEEE operation whose exact result is num/den (up to err): 2^-53 relative
func (m *Machine) roundErr(num *Term, den int64, err *Term) (*Term, bool) {
	tb := m.tb
	K, ok := mulOK(den, int64(1)<<13) // |num|/den * 2^-53 / 2^-40
	if !ok {
		return nil, false
	}
	var rel *Term
	switch {
	case num.lo >= 0:
		rel = tb.Quo(tb.Add(num, tb.Int(K-1)), tb.Int(K))
	case num.hi <= 0:
		rel = tb.Quo(tb.Add(tb.Neg(num), tb.Int(K-1)), tb.Int(K))
	default:
		if num.lo <= -inf || num.hi >= inf {
			return nil, false
		}
		mx := max64(-num.lo, num.hi)
		rel = tb.Int((mx + K - 1) / K)
	}
	// the inherited error is itself rounded: 2^-53*err, bounded by ceil(err / 2^20) units (zero stays zero)
	var extra *Term = tb.Int(0)
	if !(err.IsConst() && err.k == 0) {
		if err.lo < 0 {
			return nil, false
		}
		extra = tb.Quo(tb.Add(err, tb.Int(1<<20-1)), tb.Int(1<<20))
	}
	return tb.Add(tb.Add(err, rel), extra), true
}

func (m *Machine) apxBinop(op token.Token, x, y value) (value, bool) {
	tb := m.tb
	xa, xres, ok1 := m.toApx(x)
	ya, yres, ok2 := m.toApx(y)
	if !ok1 || !ok2 {
		return nil, false
	}
	_, xConst := x.(float64)
	_, yConst := y.(float64)
	switch op {
	case token.ADD, token.SUB:
		g := gcd64(xa.den, ya.den)
		d, ok := mulOK(xa.den/g, ya.den)
		if !ok {
			return nil, false
		}
		a := tb.MulC(xa.num, d/xa.den)
		b := tb.MulC(ya.num, d/ya.den)
		var n *Term
		if op == token.ADD {
			n = tb.Add(a, b)
		} else {
			n = tb.Sub(a, b)
		}
		ru, ok := unitsOf(xres + yres)
		if !ok {
			return nil, false
		}
		e, ok := m.roundErr(n, d, tb.Add(tb.Add(xa.err, ya.err), tb.Int(ru)))
		if !ok {
			return nil, false
		}
		r := &FApx{num: n, den: d, err: e, single: isExactOperand(x, xres) && isExactOperand(y, yres)}
		lx := m.lbOf(x, xa)
		if op == token.ADD {
			if ly := m.lbOf(y, ya); lx != nil && ly != nil {
				r.lb = tb.Add(lx, ly)
			}
		} else if iy := m.intValOf(y); lx != nil && iy != nil {
			r.lb = tb.Sub(lx, iy)
		}
		if r.lb != nil && (r.lb.lo <= -maxExact || r.lb.hi >= maxExact) {
			r.lb = nil
		}
		return r, true
	case token.MUL:
		if !xConst && !yConst {
			return nil, false
		}
		if xConst {
			xa, ya, xres, yres = ya, xa, yres, xres
		}
		// xa symbolic, ya = p/q (+- yres)
		p, q := ya.num.k, ya.den
		g := gcd64(p, xa.den)
		if g == 0 {
			return float64(0), true
		}
		p2, den := p/g, xa.den/g
		d, ok := mulOK(den, q)
		if !ok {
			return nil, false
		}
		n := tb.MulC(xa.num, p2)
		mx, ok := xa.maxAbs()
		if !ok {
			return nil, false
		}
		ru, ok := unitsOf(mx * yres)
		if !ok {
			return nil, false
		}
		// |c| * err, rounded up
		cabs := int64(math.Ceil(math.Abs(float64(p))/float64(q))) + 1
		e, ok := m.roundErr(n, d, tb.Add(tb.MulC(xa.err, cabs), tb.Int(ru)))
		if !ok {
			return nil, false
		}
		r := &FApx{num: n, den: d, err: e}
		if xConst {
			x = y // the symbolic operand (xa was swapped above)
		}
		if _, isRat := x.(*FRat); isRat && yres == 0 {
			r.single = true
		}
		if lx := m.lbOf(x, xa); lx != nil && lx.lo >= 0 && p > 0 {
			r.lb = tb.Int(0)
		}
		return r, true
	case token.QUO:
		if !yConst || ya.num.k == 0 {
			return nil, false
		}
		p, q := ya.num.k, ya.den
		if p < 0 {
			p, q = -p, -q
		}
		// x / (p/q) = x*q/p
		g := gcd64(q, xa.den)
		q2, den := q/g, xa.den/g
		d, ok := mulOK(den, p)
		if !ok {
			return nil, false
		}
		n := tb.MulC(xa.num, q2)
		mx, ok := xa.maxAbs()
		if !ok {
			return nil, false
		}
		c0 := math.Abs(float64(p) / float64(q))
		ru, ok := unitsOf(2 * mx / c0 * (yres / c0))
		if !ok {
			return nil, false
		}
		inv := int64(math.Ceil(1/c0)) + 0
		if inv < 1 {
			inv = 1
		}
		e, ok := m.roundErr(n, d, tb.Add(tb.MulC(xa.err, inv), tb.Int(ru)))
		if !ok {
			return nil, false
		}
		r := &FApx{num: n, den: d, err: e}
		if _, isRat := x.(*FRat); isRat && yres == 0 {
			r.single = true
		}
		if lx := m.lbOf(x, xa); lx != nil && lx.lo >= 0 && q > 0 {
			r.lb = tb.Int(0)
		}
		return r, true
	}
	return nil, false
}

// fresh integer variable for int(v) / math.Round(v)
func (m *Machine) apxFresh(site ssa.Instruction, lo, hi int64) *Term {
	m.apxSeq++
	pos := 0
	if site != nil {
		pos = int(site.Pos())
	}
	name := fmt.Sprintf("a_%d_%d_%d_%d", m.apxSeq, pos, lo, hi)
	m.unit.varRanges[name] = [2]int64{lo, hi}
	return m.tb.Var(name, SInt, lo, hi)
}

// scaled bounds:  S*num - E  <=  S*den*v  <=  S*num + E
func (m *Machine) apxScaled(a *FApx, rmax int64) (S int64, sn, E *Term, ok bool) {
	tb := m.tb
	if a.num.lo <= -inf || a.num.hi >= inf || a.err.hi >= inf {
		return
	}
	// the scaled terms are sums of monomials: every monomial (not only the sum) must stay inside the Int encoding
	big := m.linMag(a.num) + float64(a.den)*float64(rmax+2)
	k := apxShift
	for k > 0 && big*math.Ldexp(1, k) >= math.Ldexp(1, 60) {
		k--
	}
	if big*math.Ldexp(1, k) >= math.Ldexp(1, 60) {
		return
	}
	S = int64(1) << k
	// E = ceil(err*den*S / 2^40) = ceil(err*den / 2^(40-k))
	if float64(a.err.hi)*float64(a.den) >= math.Ldexp(1, 60) {
		return
	}
	ed := tb.MulC(a.err, a.den)
	if k == apxShift {
		E = ed
	} else {
		D := int64(1) << (apxShift - k)
		E = tb.Quo(tb.Add(ed, tb.Int(D-1)), tb.Int(D))
	}
	return S, tb.MulC(a.num, S), E, true
}

func (m *Machine) apxRange(a *FApx) (lo, hi int64, ok bool) {
	mx, ok := a.maxAbs()
	if !ok || mx > 1e15 {
		return 0, 0, false
	}
	lo = int64(math.Floor(float64(a.num.lo)/float64(a.den)-float64(a.err.hi)*math.Ldexp(1, -apxShift))) - 1
	hi = int64(math.Ceil(float64(a.num.hi)/float64(a.den)+float64(a.err.hi)*math.Ldexp(1, -apxShift))) + 1
	return lo, hi, true
}

// int(v): truncation toward zero
func (m *Machine) apxToInt(a *FApx, site ssa.Instruction) value {
	tb := m.tb
	lo, hi, ok := m.apxRange(a)
	if !ok {
		panic(unsupported("int() of an approximated float with unbounded range"))
	}
	S, sn, E, ok := m.apxScaled(a, max64(abs64(lo), abs64(hi)))
	if !ok {
		panic(unsupported("int() of an approximated float: bounds do not fit the Int encoding"))
	}
	r := m.apxFresh(site, lo, hi)
	sdr := tb.MulC(r, S*a.den)
	sd := tb.Int(S * a.den)
	up, dn := tb.Add(sn, E), tb.Sub(sn, E) // S*den*v in [dn, up]
	zero := tb.Int(0)
	if os.Getenv("SYMGO_TRACE_APX") != "" {
		fmt.Fprintf(os.Stderr, "APX int: a=%s S=%d r=[%d,%d] sn=[%d,%d] E=[%d,%d] dn=[%d,%d] up=[%d,%d] sdr=[%d,%d]\n", fdesc(a), S, lo, hi, sn.lo, sn.hi, E.lo, E.hi, dn.lo, dn.hi, up.lo, up.hi, sdr.lo, sdr.hi)
	}
	// r > v-1 and r < v+1 always; after a single rounding of an exact value these hold for the exact value itself
	if a.single {
		m.assume(m.simp(tb.Lt(tb.Sub(sn, sd), sdr)))
		m.assume(m.simp(tb.Lt(sdr, tb.Add(sn, sd))))
	} else {
		m.assume(m.simp(tb.Lt(tb.Sub(dn, sd), sdr)))
		m.assume(m.simp(tb.Lt(sdr, tb.Add(up, sd))))
	}
	if a.lb != nil {
		m.assume(m.simp(tb.Le(a.lb, r)))
	}
	// r <= max(v,0), r >= min(v,0)
	m.assume(m.simp(tb.Le(sdr, tb.Ite(tb.Le(zero, up), up, zero))))
	m.assume(m.simp(tb.Le(tb.Ite(tb.Le(dn, zero), dn, zero), sdr)))
	return m.simp(r)
}

// math.Round / Floor / Ceil / Trunc of an approximated float: an exact integer-valued float again (FRat den 1)
func (m *Machine) apxMath(name string, a *FApx, site ssa.Instruction) value {
	tb := m.tb
	lo, hi, ok := m.apxRange(a)
	if !ok {
		panic(unsupported("math." + name + " of an approximated float with unbounded range"))
	}
	S, sn, E, ok := m.apxScaled(a, max64(abs64(lo), abs64(hi)))
	if !ok {
		panic(unsupported("math." + name + " of an approximated float: bounds do not fit the Int encoding"))
	}
	up, dn := tb.Add(sn, E), tb.Sub(sn, E)
	switch name {
	case "Trunc":
		r := m.apxToInt(a, site)
		if t, ok := r.(*Term); ok {
			return &FRat{num: t, den: 1}
		}
		return float64(r.(int64))
	case "Round": // |r - v| <= 1/2
		r := m.apxFresh(site, lo, hi)
		sdr2 := tb.MulC(r, 2*S*a.den)
		sd := tb.Int(S * a.den)
		m.assume(m.simp(tb.Le(sdr2, tb.Add(tb.MulC(up, 2), sd))))
		m.assume(m.simp(tb.Le(tb.Sub(tb.MulC(dn, 2), sd), sdr2)))
		if a.lb != nil {
			m.assume(m.simp(tb.Le(a.lb, r)))
		}
		return &FRat{num: r, den: 1}
	case "Floor": // r <= v < r+1
		r := m.apxFresh(site, lo, hi)
		sdr := tb.MulC(r, S*a.den)
		sd := tb.Int(S * a.den)
		m.assume(m.simp(tb.Le(sdr, up)))
		if a.single {
			m.assume(m.simp(tb.Lt(sn, tb.Add(sdr, sd))))
		} else {
			m.assume(m.simp(tb.Lt(dn, tb.Add(sdr, sd))))
		}
		if a.lb != nil {
			m.assume(m.simp(tb.Le(a.lb, r)))
		}
		return &FRat{num: r, den: 1}
	case "Ceil": // r-1 < v <= r
		r := m.apxFresh(site, lo, hi)
		sdr := tb.MulC(r, S*a.den)
		sd := tb.Int(S * a.den)
		m.assume(m.simp(tb.Le(dn, sdr)))
		if a.single {
			m.assume(m.simp(tb.Lt(tb.Sub(sdr, sd), sn)))
		} else {
			m.assume(m.simp(tb.Lt(tb.Sub(sdr, sd), up)))
		}
		if a.lb != nil {
			m.assume(m.simp(tb.Le(a.lb, r)))
		}
		return &FRat{num: r, den: 1}
	}
	panic(unsupported("math." + name + " of an approximated float"))
}

// comparison of an approximated float: decided only when the bound separates the operands
func (m *Machine) apxCmp(op token.Token, x, y value) value {
	xa, xres, ok1 := m.toApx(x)
	ya, yres, ok2 := m.toApx(y)
	if !ok1 || !ok2 {
		panic(unsupported("comparison on an approximated float"))
	}
	tb := m.tb
	g := gcd64(xa.den, ya.den)
	d, ok := mulOK(xa.den/g, ya.den)
	if !ok {
		panic(unsupported("comparison on an approximated float: denominators"))
	}
	ru, ok := unitsOf(xres + yres)
	if !ok {
		panic(unsupported("comparison on an approximated float: residual"))
	}
	diff := &FApx{num: tb.Sub(tb.MulC(xa.num, d/xa.den), tb.MulC(ya.num, d/ya.den)), den: d, err: tb.Add(tb.Add(xa.err, ya.err), tb.Int(ru))}
	S, sn, E, ok := m.apxScaled(diff, 1)
	_ = S
	if !ok {
		panic(unsupported("comparison on an approximated float: bounds"))
	}
	zero := tb.Int(0)
	up, dn := tb.Add(sn, E), tb.Sub(sn, E) // x-y (scaled) in [dn, up]
	// a fresh boolean that must be true when surely x>y ... : encode as a fresh 0/1 integer
	b := m.apxFresh(nil, 0, 1)
	isT := tb.Eq(b, tb.Int(1))
	var sureT, sureF *Term
	switch op {
	case token.LSS:
		sureT, sureF = tb.Lt(up, zero), tb.Le(zero, dn)
	case token.LEQ:
		sureT, sureF = tb.Le(up, zero), tb.Lt(zero, dn)
	case token.GTR:
		sureT, sureF = tb.Lt(zero, dn), tb.Le(up, zero)
	case token.GEQ:
		sureT, sureF = tb.Le(zero, dn), tb.Lt(up, zero)
	case token.EQL:
		sureT, sureF = tb.And(tb.Eq(up, zero), tb.Eq(dn, zero)), tb.Or(tb.Lt(up, zero), tb.Lt(zero, dn))
	case token.NEQ:
		sureT, sureF = tb.Or(tb.Lt(up, zero), tb.Lt(zero, dn)), tb.And(tb.Eq(up, zero), tb.Eq(dn, zero))
	default:
		panic(unsupported("comparison on an approximated float"))
	}
	m.assume(m.simp(tb.Implies(sureT, isT)))
	m.assume(m.simp(tb.Implies(sureF, tb.Not(isT))))
	return m.simp(isT)
}

// linMag: sum of |coefficient| * max|atom| over the linear form of t (an upper bound on every partial sum)
func (m *Machine) linMag(t *Term) float64 {
	l := &lin{coef: map[*Term]int64{}}
	m.tb.linOf(t, 1, l)
	s := math.Abs(float64(l.k))
	for a, c := range l.coef {
		if a.lo <= -inf || a.hi >= inf {
			return math.Inf(1)
		}
		s += math.Abs(float64(c)) * math.Max(math.Abs(float64(a.lo)), math.Abs(float64(a.hi)))
	}
	return s
}

// apxWithin: |x - num/den| <= tol*2^-40 as a Bool term (sufficient condition from x's bound)
func (m *Machine) apxWithin(x value, numv value, den, tol int64) value {
	tb := m.tb
	var num *Term
	switch n := numv.(type) {
	case int64:
		num = tb.Int(n)
	case *Term:
		num = n
	default:
		panic(engineError{"vApxWithin num"})
	}
	if xc, ok := x.(float64); ok {
		if nc := num; nc.IsConst() {
			return math.Abs(xc-float64(nc.k)/float64(den)) <= float64(tol)*math.Ldexp(1, -apxShift)
		}
	}
	xa, xres, ok := m.toApx(x)
	if !ok {
		panic(unsupported("vApxWithin on " + fdesc(x)))
	}
	g := gcd64(xa.den, den)
	d, ok := mulOK(xa.den/g, den)
	if !ok {
		panic(unsupported("vApxWithin: denominators"))
	}
	ru, ok := unitsOf(xres)
	if !ok {
		panic(unsupported("vApxWithin: residual"))
	}
	diff := &FApx{num: tb.Sub(tb.MulC(xa.num, d/xa.den), tb.MulC(num, d/den)), den: d, err: tb.Add(xa.err, tb.Int(ru))}
	S, sn, E, ok := m.apxScaled(diff, 1)
	if !ok {
		panic(unsupported("vApxWithin: bounds do not fit the Int encoding"))
	}
	// tolerance in the same scale, rounded down
	k := int64(0)
	for (int64(1) << k) < S {
		k++
	}
	tf := float64(tol) * float64(d)
	if tf >= math.Ldexp(1, 60) {
		panic(unsupported("vApxWithin: tolerance too large"))
	}
	ts := (tol * d) >> (apxShift - k)
	up, dn := tb.Add(sn, E), tb.Sub(sn, E)
	return m.simp(tb.And(tb.Le(up, tb.Int(ts)), tb.Le(tb.Int(-ts), dn)))
}
