"""Translator validation (check selftest), run by setup_cmd and available at any time:
 (1) go test of the engine's own unit tests (term simplifier / interval soundness vs brute force, Sprintf and
     string models vs the real fmt/strings, exact-float layer vs IEEE on random values);
 (2) executor vs native: the digest of ~450 accessor results, stepping calls and a reverse lookup for seeded random
     civil date-times must be identical when the real code is interpreted concretely by symgo and when it runs natively;
 (3) symbolic vs native at sample points: the merged symbolic state of the lunar constructor, constrained to one
     moment, must imply the natively computed field values (an SMT validity query per sample)."""
import json, os, random, subprocess, sys, shutil, time


def run(verif, repo, goenv, solver):
    t0 = time.time()
    for s in (solver, "z3", "cvc5"):
        if not shutil.which(s):
            print("selftest: solver missing:", s)
            return 1
    r = subprocess.run(["go", "test", "-count=1", "./..."], cwd=os.path.join(verif, "engine"), env=goenv, capture_output=True, text=True)
    if r.returncode != 0:
        print("selftest: engine unit tests FAILED\n", r.stdout[-3000:], r.stderr[-2000:])
        return 1
    seed = int(os.environ.get("VERIF_SEED", "1"))
    rnd = random.Random(seed)
    n = int(os.environ.get("VERIF_SELFTEST_N", "40"))
    dates = [(1, 1, 1, 0, 0, 0), (9998, 12, 31, 23, 59, 59), (1582, 10, 4, 23, 0, 0), (1582, 10, 15, 0, 0, 0), (15, 12, 30, 12, 0, 0),
             (2020, 2, 4, 17, 3, 12), (2033, 12, 22, 23, 30, 0), (239, 12, 13, 1, 2, 3), (2024, 2, 29, 22, 59, 59), (1900, 1, 31, 11, 0, 0)]
    while len(dates) < n:
        y, m = rnd.randint(1, 9998), rnd.randint(1, 12)
        d = rnd.randint(1, 28)
        if y == 1582 and m == 10 and 4 < d < 15:
            continue
        dates.append((y, m, d, rnd.choice([0, 1, 11, 12, 22, 23, rnd.randint(0, 23)]), rnd.randint(0, 59), rnd.randint(0, 59)))
    sys.path.insert(0, os.path.join(verif, "bin"))
    import importlib.machinery, importlib.util
    loader = importlib.machinery.SourceFileLoader("check", os.path.join(verif, "bin", "check"))
    spec = importlib.util.spec_from_loader("check", loader)
    chk = importlib.util.module_from_spec(spec)
    loader.exec_module(chk)
    work = chk.WORK
    os.makedirs(work, exist_ok=True)
    tf = os.path.join(work, "zz_vh_selftest_test.go")
    with open(tf, "w") as f:
        f.write("package calendar\n\nimport \"testing\"\n\nfunc TestVHDigest(t *testing.T) {\n")
        for i, (y, m, d, h, mi, s) in enumerate(dates):
            sect, g = 1 + i % 2, (i // 2) % 2
            f.write(f"\tt.Logf(\"VHDIGEST {i} %d %d %d\", vhDigestDate({y}, {m}, {d}, {h}, {mi}, {s}, {sect}, {g}), "
                    f"vhDigestSmall(NewSolar({y}, {m}, {d}, {h}, {mi}, {s}).GetLunar()), vhStrDigest(NewSolar({y}, {m}, {d}, {h}, {mi}, {s}).GetLunar()))\n")
        f.write("}\n")
    ov = os.path.join(work, "overlay_selftest.json")
    json.dump({"Replace": chk.overlay_files({os.path.join(repo, "calendar", "zz_vh_selftest_test.go"): tf})}, open(ov, "w"))
    r = subprocess.run(["go", "test", "-vet=off", "-count=1", "-v", "-overlay", ov, "-run", "TestVHDigest", "./calendar"], cwd=repo, env=goenv, capture_output=True, text=True)
    exp = {}
    for l in (r.stdout + r.stderr).splitlines():
        if "VHDIGEST" in l:
            p = l[l.index("VHDIGEST"):].split()
            exp[int(p[1])] = (int(p[2]), int(p[3]), int(p[4]))
    if len(exp) != len(dates):
        print("selftest: native digest run failed\n", (r.stdout + r.stderr)[-3000:])
        return 1
    units = []
    for i, (y, m, d, h, mi, s) in enumerate(dates):
        sect, g = 1 + i % 2, (i // 2) % 2
        units.append(dict(id=f"ST1[{y}-{m}-{d} {h}:{mi}:{s}]", harness="calendar.VH_ST_Concrete", timeout_ms=300000,
                          params={"Y": y, "M": m, "D": d, "H": h, "MI": mi, "S": s, "SECT": sect, "GENDER": g, "EXPECT": exp[i][0]}))
        if i % 2 == 0:
            units.append(dict(id=f"ST2[{y}-{m}-{d} {h}:{mi}:{s}]", harness="calendar.VH_ST_Symbolic", timeout_ms=300000, concrete={"v_m": m},
                              params={"Y": y, "D": d, "H": h, "MI": mi, "S": s, "EXPECT": exp[i][1], "EXPECT2": exp[i][2]}))
    data, sd = chk.run_engine(units, "selftest", "quick", seed, 20000)
    shutil.rmtree(sd, ignore_errors=True)
    if data is None:
        print("selftest: engine failed")
        return 1
    bad = 0
    nob = 0
    for u in data["results"]:
        probs = u.get("problems") or []
        obls = u.get("obligations") or []
        nob += len(obls)
        ok = not probs and obls and all(o["result"] in ("unsat", "trivial") for o in obls) and u.get("reached")
        if not ok:
            bad += 1
            print("selftest: MISMATCH", u["id"], probs[:2], [(o["id"], o["result"]) for o in obls if o["result"] not in ("unsat", "trivial")])
    summary = {"engine_unit_tests": "ok", "dates": len(dates), "units": len(units), "obligations": nob, "mismatches": bad, "wall_s": round(time.time() - t0, 1), "seed": seed}
    json.dump(summary, open(os.path.join(verif, ".work", "selftest.json") if os.path.isdir(os.path.join(verif, ".work")) else os.path.join(work, "selftest.json"), "w"))
    print("selftest:", json.dumps(summary))
    return 1 if bad else 0
