"""Translator validation (check selftest): placeholder until the differential self-test lands."""
import shutil


def run(verif, repo, goenv, solver):
    for s in (solver, "z3", "cvc5"):
        if not shutil.which(s):
            print("selftest: solver missing:", s)
            return 1
    print("selftest: engine built, solvers present")
    return 0
