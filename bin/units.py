"""Work units, bounds and year sets per property."""
import random

COMMON_ASSUMPTIONS = [
    "go/ssa (x/tools v0.29.0) lowering of the current /repo source is faithful",
    "the symgo executor (validated by `check selftest`: concrete executor runs vs native runs) and its Sprintf/strings models",
    "Go int arithmetic = SMT Int arithmetic because every symbolic +,-,* result is shown (interval analysis, else solver) to stay within ±2^61",
    "symbolic float64 values are exact dyadic rationals (|num|<2^53) or host-computed tables over a small-range integer; any other float operation aborts the unit as not encodable",
    "ShouXingUtil.CalcShuo/CalcQi/QiAccurate2 are executed natively on concrete arguments (their numerical content is outside every claim)",
    "solver: z3 5.1 (z3-new); sampled queries re-decided by z3 4.8.12 and cvc5 1.0; sat models are replayed natively through `go test -overlay` before any VIOLATION is printed",
]


def cube(harness, pid, params, var, values, extra=None, **kw):
    us = []
    for v in values:
        c = {var: v}
        if extra:
            c.update(extra)
        us.append(dict(id=f"{pid}[{var}={v}]", harness=harness, params=dict(params), concrete=c, **kw))
    return us


def c04_units(tier, seed):
    q = tier == "quick"
    us = []
    for H in (0, 3, 6, 9, 12, 15, 18, 21):
        us += cube("calendar.VH_C04a_JulianDay", f"C04a[H={H}]", {"H": H}, "v_m", range(1, 13))
    us += cube("calendar.VH_C04c_NextDay", "C04c", {"N": 70 if q else 800}, "v_m", range(1, 13))
    us.append(dict(id="C04f", harness="calendar.VH_C04f_Order", params={}))
    us += cube("calendar.VH_C04g_NextHour", "C04g", {"K": 24 * 40 if q else 24 * 400}, "v_m", range(1, 13))
    us.append(dict(id="C04h", harness="calendar.VH_C04h_NextMonthYear", params={"K": 100000}))
    us += cube("calendar.VH_C04i_Switch", "C04i", {}, "v_m", range(1, 13))
    us.append(dict(id="C04iGap", harness="calendar.VH_C04i_Gap", params={}))
    # C04j: Julian Day -> date-time for every float64 value (grid 2^-31 resp. 2^-30 above JDN 2^22) of day-number chunks
    JLO, JHI, W = 1721424, 5373484, 500
    chunks = [(lo, min(lo + W - 1, JHI)) for lo in range(JLO, JHI + 1, W)]
    if q:
        rnd = random.Random(seed)
        keep = {0, 1, len(chunks) - 1, len(chunks) - 2, (2299161 - JLO) // W, (2299161 - JLO) // W - 1, (2451545 - JLO) // W, (4194304 - JLO) // W, (4194304 - JLO) // W - 1}
        keep.update(rnd.sample(range(len(chunks)), 40))
        chunks = [chunks[i] for i in sorted(keep)]
    else:
        # every 4th chunk exactly (tables); the whole-century units C04l below cover every grid value of ALL day numbers
        rnd = random.Random(seed)
        off = rnd.randrange(4)
        keep = set(range(off, len(chunks), 4)) | {0, 1, len(chunks) - 1, len(chunks) - 2, (2299161 - JLO) // W, (2299161 - JLO) // W - 1, (4194304 - JLO) // W, (4194304 - JLO) // W - 1}
        chunks = [chunks[i] for i in sorted(keep)]
    for (lo, hi) in chunks:
        segs = [(lo, hi)]
        if lo < 4194304 <= hi:  # the float64 grid changes at 2^22
            segs = [(lo, 4194303), (4194304, hi)]
        for (a, b) in segs:
            us.append(dict(id=f"C04j[N={a}..{b}]", harness="calendar.VH_C04j_FromJulianDay", params={"NLO": a, "NHI": b, "D": (1 << 31) if b < 4194304 else (1 << 30)}))
    # C04k: one-second round trip through the Julian Day, as two lemmas under the rounding-error over-approximation
    #   encode: GetJulianDay of every valid date-time is within 2^-28 day of the nominal value (year symbolic, era x month)
    #   decode: every float within 2^-28 day of a nominal value converts back to that day and second (century chunks)
    # C04l: every float64 grid value of whole centuries of day numbers at once (day part under the same over-approximation)
    for (lo, hi) in ERAS:
        for m in range(1, 13):
            if (lo, hi) == (1582, 1582) or True:
                us.append(dict(id=f"C04k-enc[y={lo}..{hi},m={m}]", harness="calendar.VH_C04k_Encode", params={"YLO": lo, "YHI": hi}, concrete={"v_m": m}))
    CW = 36525
    cents = [(lo, min(lo + CW - 1, JHI)) for lo in range(JLO, JHI + 1, CW)]
    if q:
        rnd = random.Random(seed + 1)
        keepc = {0, len(cents) - 1, (2299161 - JLO) // CW, (2451545 - JLO) // CW}
        keepc.update(rnd.sample(range(len(cents)), 2))
        cents = [cents[i] for i in sorted(keepc)]
    for (lo, hi) in cents:
        segs = [(lo, hi)]
        if lo < 2299161 <= hi:  # the calendar switch: keep the two branches of the day-number correction apart
            segs = [(lo, 2299160), (2299161, hi)]
        for (a, b) in segs:
            # decode lemma in pieces of 1/12 century (each query well inside the per-query time limit)
            QW = 3044
            for c in range(a, b + 1, QW):
                us.append(dict(id=f"C04k-dec[N={c}..{min(c + QW - 1, b)}]", harness="calendar.VH_C04k_Decode", params={"NLO": c, "NHI": min(c + QW - 1, b)}, qtimeout_ms=300000))
            for (c, e) in ([(a, b)] if not (a < 4194304 <= b) else [(a, 4194303), (4194304, b)]):
                us.append(dict(id=f"C04l[N={c}..{e}]", harness="calendar.VH_C04l_FromJulianDayAll", params={"NLO": c, "NHI": e, "D": (1 << 31) if e < 4194304 else (1 << 30)}))
    for am in range(1, 13):
        for bm in range(1, 13):
            us.append(dict(id=f"C04d[am={am},bm={bm}]", harness="calendar.VH_C04d_Subtract", params={"DY": 2 if q else 4},
                           concrete={"v_am": am, "v_bm": bm}))
    return us


PROPS = {
    "C04": dict(
        units=c04_units,
        bounds={
            "quick": "years 1..9998 symbolic; NextDay |n|<=70; NextHour |k|<=960; NextMonth |k|<=100000; Subtract |dyear|<=2; cubes on month; Julian Day inverse: every float64 value on the grid 2^-31 (2^-30 from JDN 2^22) inside ~49 chunks of 500 day numbers (first/last, the 1582 switch, J2000, the 2^22 grid change, 40 seeded random); one-second round trip: encode lemma for ALL valid date-times (year symbolic), decode lemma and whole-century grid inverse for 6 centuries of day numbers (first, last, 1582 switch, J2000, 2 seeded random) under the rounding-error over-approximation",
            "thorough": "years 1..9998 symbolic; NextDay |n|<=800; NextHour |k|<=9600; NextMonth |k|<=100000; Subtract |dyear|<=4; Julian Day inverse: every float64 grid value of every 4th chunk of 500 day numbers of 1721424..5373484 exactly (1830 chunks) and, through the whole-century units, ALL day numbers; one-second round trip: encode lemma for all valid date-times, decode lemma and whole-century grid inverse for ALL 100 centuries of day numbers",
        },
        qtimeout={"quick": 60000, "thorough": 120000},
        unit_timeout_ms={"quick": 400000, "thorough": 1500000},
        outside="step sizes beyond the bounds; float64 Julian Days finer than the stated grid below JDN 2^21 (years < 1030 have one more mantissa bit); in the one-second round trip the inexact float operations are OVER-approximated (every IEEE result = exact result within 2^-53 relative, int()/Round as constrained integer variables): unsat carries over to the real floats, a model is reported only if it reproduces natively",
    ),
}


def c07_units(tier, seed):
    return [dict(id="C07a", harness="calendar.VH_C07_NewSolar", params={"B": 1 << 31})]


def c20_units(tier, seed):
    us = cube("calendar.VH_C20_XingZuo", "C20a", {}, "v_m", range(1, 13))
    us += cube("calendar.VH_C20_Festivals", "C20b", {}, "v_m", range(1, 13))
    return us


def c19_units(tier, seed):
    us = [dict(id="C19a", harness="calendar.VH_C19_Civil", params={})]

    def ranges(off):
        out = []
        for k in range(1, 6):
            lo = max(0 if off == 0 else 1, (10 ** (k - 1) if k > 1 else 0) - off)  # lunar year 0 is the image of civil 0001-01-01..02-10
            hi = min(9999 if off == 0 else 9998, 10 ** k - 1 - off)
            if lo <= hi:
                out.append((lo, hi, k))
        return out
    for off in (0, 2697, 544):
        rs = ranges(off)
        for (alo, ahi, ka) in rs:
            for (blo, bhi, kb) in rs:
                for la in (0, 1):
                    for lb in (0, 1):
                        us.append(dict(id=f"C19b[off={off},ya={alo}..{ahi},yb={blo}..{bhi},leap={la}{lb}]", harness="calendar.VH_C19_Chinese",
                                       params={"YALO": alo, "YAHI": ahi, "YBLO": blo, "YBHI": bhi, "LEAPA": la, "LEAPB": lb, "OFF": off, "KA": ka}))
    return us


def c05_units(tier, seed):
    return cube("calendar.VH_C05_DayTime", "C05a", {}, "v_m", range(1, 13))


PROPS["C07"] = dict(units=c07_units, bounds_text="y in 1..9998, all other arguments in [-2^31, 2^31]")
PROPS["C20"] = dict(units=c20_units, bounds_text="all valid (y,m,d), y in 1..9998; cubes on month")
PROPS["C19"] = dict(units=c19_units, bounds_text="civil forms: two arbitrary valid date-times, years 1..9999; Chinese renderings: two arbitrary (year 1..9999 resp. 1..9998 for Taoist/Buddhist, month -12..12 except 0, day 1..30) triples, cubed on the digit count of each year and the leap sign of each month",
                    qtimeout={"quick": 120000, "thorough": 300000})
PROPS["C05"] = dict(units=c05_units, bounds_text="all valid date-times y in 1..9998")


# ---------------- per-year machinery ----------------
import re, os, json

REPO = os.environ.get("VERIF_REPO", "/repo")


def leap_table_years():
    """Years named in the LEAP_11 / LEAP_12 override tables of the current source (structural years)."""
    ys = []
    try:
        src = open(os.path.join(REPO, "calendar", "LunarYear.go")).read()
        for name in ("LEAP_11", "LEAP_12"):
            mm = re.search(r"var %s = \[\]int\{([^}]*)\}" % name, src)
            if mm:
                ys.append([int(x) for x in mm.group(1).replace("\n", " ").split(",") if x.strip()])
    except Exception:
        pass
    return ys


S_CORE = [1, 2, 8, 9, 15, 16, 18, 19, 23, 24, 236, 237, 239, 240, 241, 1574, 1575, 3359, 1582, 1583, 1600, 1644, 1645, 1899, 1900,
          1928, 1929, 1959, 1960, 1990, 2000, 2019, 2020, 2022, 2024, 2033, 2034, 3358, 9997, 9998]


def structural_years(tier):
    """years picked by the native feature scan of the CURRENT source (bin/symgo scan): for every structural feature
    (solstice-day jiazi index at the anchor-choice boundary, solstice or Jie at 23h, Lichun before New Year in a jiazi
    year, each leap-month number, dog-day geometry classes, 28-day months, ...) quick takes the year closest to 2000,
    thorough every representative (first, last, three closest to 2000)"""
    p = os.path.join(os.environ.get("VERIF_WORK", os.path.join(os.path.dirname(os.path.dirname(os.path.abspath(__file__))), ".work")), "scan.json")
    try:
        rows = json.load(open(p))
    except Exception:
        return []
    ys = set()
    for r in rows:
        if r["feature"] == "panic":
            continue
        reps = r["years"]
        if tier == "quick":
            ys.add(min(reps, key=lambda y: abs(y - 2000)))
        else:
            ys.update(reps)
    return sorted(ys)


def scan_feature_years(prefix):
    p = os.path.join(os.environ.get("VERIF_WORK", os.path.join(os.path.dirname(os.path.dirname(os.path.abspath(__file__))), ".work")), "scan.json")
    try:
        return {r["feature"]: r["years"] for r in json.load(open(p)) if r["feature"].startswith(prefix)}
    except Exception:
        return {}


def year_set(tier, seed, budget_quick=None, thorough_n=None, thin=1):
    ys = set(S_CORE)
    if not budget_quick:
        ys.update(structural_years(tier))
    tabs = leap_table_years()
    for t in tabs:
        inr = [y for y in t if 1 <= y <= 9997]
        for y in inr[:1] + inr[-1:]:
            ys.update([y, y + 1])
    rnd = random.Random(seed)
    if tier == "quick":
        ys.update(rnd.sample(range(1, 9999), 4))
        if budget_quick:
            core = sorted(ys)
            # keep structural extremes, thin the rest deterministically
            keep = set(core[:: max(1, len(core) // budget_quick)])
            keep.update([15, 18, 1582, 2033, 9998])
            for t in tabs:
                inr = [y for y in t if 1 <= y <= 9997]
                for y in inr[-1:]:
                    keep.update([y, y + 1])
            ys = keep
    else:
        for t in tabs:
            for y in t:
                if 1 <= y <= 9997:
                    ys.update([y, y + 1])
        n = thorough_n or int(os.environ.get("VERIF_THOROUGH_YEARS", "400"))
        step = max(1, 9998 // n)
        off = rnd.randrange(step)
        ys.update(range(1 + off, 9999, step))
        ys.update(range(1890, 2110))
        if thin > 1:
            # expensive harnesses: keep the core, every structural year of the scan and 1980..2040; every thin-th of the rest
            must = set(S_CORE) | set(structural_years(tier)) | set(range(1980, 2041))
            rest = sorted(ys - must)
            ys = must | set(rest[::thin])
    return sorted(y for y in ys if 1 <= y <= 9998)


def per_year(harness, pid, years, extra_params=None, months=range(1, 13), **kw):
    us = []
    for Y in years:
        for m in months:
            p = {"Y": Y}
            if extra_params:
                p.update(extra_params)
            us.append(dict(id=f"{pid}[Y={Y},m={m}]", harness=harness, params=p, concrete={"v_m": m}, **kw))
    return us


def c03_units(tier, seed):
    ys = year_set(tier, seed)
    us = per_year("calendar.VH_C03_Near", "C03a", ys)
    # table clauses (order, 14.6-15.8 day spacing, entry = the year's own instant rounded to the second, adjacent years agree):
    # no symbolic input is left once the year is fixed, so these are evaluated on the real table inside the executor,
    # for every year 2..9997 (0.05 s each)
    ty = range(2, 9998)  # 0.05 s per year: every year in both tiers
    us += [dict(id=f"C03t[Y={Y}]", harness="calendar.VH_C03_Table", params={"Y": Y}) for Y in ty]
    return us


PROPS["C03"] = dict(units=c03_units, bounds_text="prev/next/current term: every second of each listed civil year (year list in unit_bounds), cubes on civil month; table clauses (canonical order, strictly increasing, 14.6-15.8 days apart, each entry = the year's raw instant rounded to the second, adjacent years agree on the 7 shared terms): every year 2..9997, evaluated on the real table",
                    outside="that term instants are roots of the solar longitude; years not listed")


def c05_units(tier, seed):
    us = cube("calendar.VH_C05_DayTime", "C05a", {}, "v_m", range(1, 13))
    us += per_year("calendar.VH_C05_YearMonth", "C05b", year_set(tier, seed))
    return us


def c13_units(tier, seed):
    return per_year("calendar.VH_C13_Seasonal", "C13a", year_set(tier, seed))


PROPS["C05"] = dict(units=c05_units, bounds_text="day/hour pillars: all date-times of years 1..9998 (year symbolic); year/month pillars: every second of each listed year",
                    outside="year/month pillars in years not listed")
PROPS["C13"] = dict(units=c13_units, bounds_text="every day (and time of day) of each listed civil year", outside="years not listed")


def c01_units(tier, seed):
    ys = year_set(tier, seed, thin=10)
    us = per_year("calendar.VH_C01_RoundTrip", "C01a", ys)
    us += per_year("calendar.VH_C01_Position", "C01b", ys)
    # stepping is the expensive harness (30-60 s per unit): thorough takes the full quick year set with the larger step bound
    ys2 = year_set(tier, seed, budget_quick=8) if tier == "quick" else year_set("quick", seed)
    us += per_year("calendar.VH_C01_Step", "C01c", ys2, {"N": 35 if tier == "quick" else 400})
    # the lemma C01b rests on: every lunar year's month table is contiguous and agrees with its neighbours' tables
    # (same units as C06a, evaluated on the real table of EVERY lunar year; 0.06 s each)
    us += [dict(id=f"C01d[Y={Y}]", harness="calendar.VH_C06_Structure", params={"Y": Y}) for Y in range(1, 9999)]
    return us


def c06_units(tier, seed):
    ys = year_set(tier, seed)
    # the structural clauses are evaluated on the real table (0.06 s per year): every lunar year in both tiers
    us = [dict(id=f"C06a[Y={Y}]", harness="calendar.VH_C06_Structure", params={"Y": Y}) for Y in range(1, 9999)]
    # navigation costs 8-20 s per unit: thorough takes the full quick year set plus every 40th other year, with the larger step bound
    ysn = year_set(tier, seed, budget_quick=14) if tier == "quick" else sorted(set(year_set("quick", seed)) | set(ys[::40]))
    for Y in ysn:
        if 14 <= Y <= 9980:
            for k in range(13):
                us.append(dict(id=f"C06b[Y={Y},k={k}]", harness="calendar.VH_C06_Navigate", params={"Y": Y, "N": 30 if tier == "quick" else 150, "K": k}))
    return us


def c07_units(tier, seed):
    us = [dict(id="C07a", harness="calendar.VH_C07_NewSolar", params={"B": 1 << 31})]
    ys = year_set(tier, seed, budget_quick=16) if tier == "quick" else year_set(tier, seed, thin=8)
    # years with a solar-term instant whose seconds round up across a minute / hour / day boundary: every lunar
    # constructor of such a year converts that instant (carry chain of NewSolarFromJulianDay)
    ys = sorted(set(ys) | {min(v, key=lambda y: abs(y - 2000)) for v in scan_feature_years("term-instant-rounds-up").values()})
    ys = sorted(set(ys) | {16, 19})  # lunar years whose New Year falls in December of the previous civil year (AD 9-23 reform)
    for Y in ys:
        for mo in range(-13, 14):
            us.append(dict(id=f"C07b[Y={Y},mo={mo}]", harness="calendar.VH_C07_NewLunar", params={"Y": Y, "MO": mo}))
    # closure under stepping: month / year stepping from every valid civil date lands on a valid date and never panics
    # (same unit as C04h; day and hour stepping are C04c/g, lunar stepping C01c)
    us.append(dict(id="C07c", harness="calendar.VH_C04h_NextMonthYear", params={"K": 100000}))
    return us


def c17_units(tier, seed):
    return per_year("calendar.VH_C17_TaoFoto", "C17a", year_set(tier, seed, thin=3))


PROPS["C01"] = dict(units=c01_units, bounds_text="every second of each listed civil year; steps |n|<=35 (quick) / 400 (thorough); table lemma (contiguity, neighbouring tables agree): every lunar year 1..9998", outside="round trip and stepping for years not listed; larger steps")
PROPS["C06"] = dict(units=c06_units, bounds_text="structure: the month table of EVERY lunar year 1..9998, evaluated on the real table; navigation |n|<=30 (quick) / 150 (thorough) from every month of each listed year", outside="navigation from years not listed")
PROPS["C07"] = dict(units=c07_units, bounds_text="NewSolar: y in 1..9998, other args in [-2^31,2^31]; NewLunar/NewTao/NewFoto: month -14..14, day -2..33, time box, each listed year", outside="lunar years not listed")
PROPS["C17"] = dict(units=c17_units, bounds_text="every second of each listed civil year", outside="years not listed")


ERAS = [(1, 1581), (1582, 1582), (1583, 1599), (1600, 9998)]


def cube_em(harness, pid, params, months=range(1, 13), eras=ERAS, skip=None, **kw):
    """cube on (calendar era of the year, civil month): removes the Julian/Gregorian and leap-rule case splits from every query"""
    us = []
    for (lo, hi) in eras:
        for m in months:
            p = dict(params)
            p.update({"YLO": lo, "YHI": hi})
            if skip and skip(lo, hi, m):
                continue
            us.append(dict(id=f"{pid}[y={lo}..{hi},m={m}]", harness=harness, params=p, concrete={"v_m": m}, **kw))
    return us


def c15_units(tier, seed):
    q = tier == "quick"
    us = cube_em("calendar.VH_C15_Week", "C15a", {})
    us += cube_em("calendar.VH_C15_WeekNextSeparate", "C15c", {}, skip=lambda lo, hi, m: lo == 1582 and 9 <= m <= 11)
    us += cube_em("calendar.VH_C15_MonthWeeks", "C15e", {}, skip=lambda lo, hi, m: lo == 1582 and m == 10)
    us += cube_em("calendar.VH_C15_WeekNext", "C15b", {"N": 8 if q else 100})
    us += cube_em("calendar.VH_C15_Month", "C15d", {"K": 1000000})
    return us


PROPS["C15"] = dict(units=c15_units, bounds_text="all dates y in 1..9998 (year symbolic), all 7 week starts; whole-week steps |n|<=8 (quick) / 100 (thorough); month/season steps |n|<=10^6; month-separated week stepping: single steps +1/-1/0 from every week (composition by induction on positions)",
                    outside="month-separated stepping around October 1582 (Sep-Nov 1582 excluded); multi-step Next(n,true): |n| <= 3 in one call compared with single steps, larger n through the one-step law and the call's own loop")


def jie23_units(pid, tier):
    """start-of-fortune units for the months opened by a Jie at 23:xx (chosen by the native scan): the late-rat slot of
    the Jie is where the start offset arithmetic changes shape"""
    us = []
    for f, ys in sorted(scan_feature_years("jie-at-23h-in-month-").items()):
        m = int(f.rsplit("-", 1)[1])
        pick = [min(ys, key=lambda y: abs(y - 2000))] if tier == "quick" else ys
        for Y in pick:
            if Y > 9800:
                continue
            for sect in (1, 2):
                us.append(dict(id=f"{pid}[sect={sect},Y={Y},m={m},jie-at-23h]", harness="calendar.VH_C12_Start", params={"Y": Y, "SECT": sect}, concrete={"v_m": m}))
    return us


def c12_units(tier, seed):
    q = tier == "quick"
    ys = year_set(tier, seed, budget_quick=10) if q else year_set(tier, seed, thin=20)
    ys = [y for y in ys if y <= 9800]
    us = []
    for sect in (1, 2):
        us += per_year("calendar.VH_C12_Start", f"C12a[sect={sect}]", ys, {"SECT": sect})
    us += jie23_units("C12a", tier)
    ys2 = [2020] if q else [15, 1990, 2020, 2033, 9000]
    for Y in ys2:
        for I in ((0, 1, 5, 9) if q else range(10)):
            for bm in (1, 2, 11):  # a birth before Lichun (the chart's year pillar is still the previous year's), after it, late in the year
                for fwd in (0, 1):
                    us.append(dict(id=f"C12b[Y={Y},I={I},bm={bm},fwd={fwd}]", harness="calendar.VH_C12_Chain", params={"Y": Y, "I": I, "BM": bm, "FWD": fwd}))
    return us


PROPS["C12"] = dict(units=c12_units, bounds_text="start offsets and direction: every birth second of each listed year, both genders, both schools; chain (field-level): birth year from the listed set, arbitrary month/hour pillars, direction, start offset 0..12 years and 0..11 months, every great-fortune index 0..9 with all its annual, minor and monthly entries",
                    outside="years not listed; chain states with non-zero start day/hour offsets (they influence the chain only through the start year, which is covered as Y+sy or Y+sy+1)",
                    unit_timeout_ms={"quick": 400000, "thorough": 1500000})


def c16_units(tier, seed):
    ys = year_set(tier, seed)
    ys = [y for y in ys if y >= 2]
    us = per_year("calendar.VH_C16_Stars", "C16a", ys)
    us.append(dict(id="C16b", harness="calendar.VH_C16_Names", params={}))
    return us


PROPS["C16"] = dict(units=c16_units, bounds_text="every second of each listed civil year, three year/month conventions, both hour-star routes", outside="years not listed")


def c08_units(tier, seed):
    q = tier == "quick"
    us = [dict(id=f"C08a[sect={s},base={b}]", harness="calendar.VH_C08_Field", params={"Y": b, "SECT": s}) for s in (1, 2) for b in ((2020,) if q else (2020, 2024, 15))]
    ys = year_set(tier, seed, budget_quick=6) if q else year_set(tier, seed, thin=12)
    for Y in ys:
        for m in range(1, 13):
            us.append(dict(id=f"C08b[Y={Y},m={m}]", harness="calendar.VH_C08_Year", params={"Y": Y, "SECT": 1 + (Y + m) % 2, "GENDER": (Y // 2 + m) % 2}, concrete={"v_m": m}))
    us += per_year("calendar.VH_C08_Inv", "C08i", year_set(tier, seed, budget_quick=12) if q else year_set(tier, seed, thin=3))
    # the fortune objects: every accessor on the field-level chain states (same units as C12b)
    for I in ((0, 1, 9) if q else range(10)):
        for fwd in (0, 1):
            us.append(dict(id=f"C08d[I={I},fwd={fwd}]", harness="calendar.VH_C12_Chain", params={"Y": 2020, "I": I, "BM": 11, "FWD": fwd}))
    for Y in (year_set(tier, seed, budget_quick=8) if q else year_set(tier, seed, thin=2)):
        if Y < 2 or Y > 9997:
            continue
        us.append(dict(id=f"C08c[Y={Y}]", harness="calendar.VH_C08_Containers", params={"Y": Y}))
    # the lunar-year object for every year at once (table computation cut out, year symbolic)
    us.append(dict(id="C08e[y=0..9999]", harness="calendar.VH_C08_YearObjectAll", params={"YLO": 0, "YHI": 9999}))
    # range lemma of the fortune chain states (start offsets) where the arithmetic changes shape
    us += jie23_units("C08f", tier)
    # the packed-table list accessors on every InvLunar state (all month numbers x day pillars, month x day pillars, day x hour pillars)
    us += list_units("C08g")
    # stepping lemma behind Yun.GetStartSolar (birth.NextYear().NextMonth().NextDay().NextHour()): month / year stepping never
    # panics and lands on a valid date for every valid start date (year symbolic), same unit as C04h
    us.append(dict(id="C08h", harness="calendar.VH_C04h_NextMonthYear", params={"K": 100000}))
    return us


def list_units(pid):
    """list-valued almanac attributes (yi/ji, spirits): defining inputs case-split by the solver, one unit per month number / branch;
    the same units decide purity (C18d) and panic-freedom / well-formedness of these accessors on every InvLunar state (C08g)"""
    us = []
    for K in (0, 1, 2, 3):
        for M in (range(1, 13) if K == 0 else range(12)):
            us.append(dict(id=f"{pid}[K={K},M={M}]", harness="calendar.VH_C18_ListPure", params={"Y": 2020, "K": K, "M": M}))
    return us


def c11_units(tier, seed):
    q = tier == "quick"
    us = []
    for b in ((2020, 2024) if q else (2020, 2024, 1984, 1990, 15)):
        for s in (1, 2):
            us.append(dict(id=f"C11a[sect={s},base={b}]", harness="calendar.VH_C11_Routes", params={"Y": b, "SECT": s}))
            us.append(dict(id=f"C11b[sect={s},base={b}]", harness="calendar.VH_C11_PillarPure", params={"Y": b, "SECT": s}))
    ys = range(1, 9999)  # 0.01 s per year: every year in both tiers
    us += [dict(id=f"C11c[Y={Y}]", harness="calendar.VH_C11_YearObject", params={"Y": Y}) for Y in ys]
    us += per_year("calendar.VH_C11_TimeObject", "C11d", year_set(tier, seed, budget_quick=8) if q else year_set(tier, seed, thin=3))
    return us


def c18_units(tier, seed):
    q = tier == "quick"
    us = []
    for b in ((2020, 2024) if q else (2020, 2024, 1984, 1990, 15)):
        us.append(dict(id=f"C18a[base={b}]", harness="calendar.VH_C18_Pure", params={"Y": b}))
        us.append(dict(id=f"C18b[base={b}]", harness="calendar.VH_C18_Laws", params={"Y": b}))
    us.append(dict(id="C18c", harness="calendar.VH_C18_Tables", params={}))
    us += list_units("C18d")
    # the hour object's attributes by (early-rat day pillar, hour pillar); the chart's attributes by its pillars (same units as C11b)
    for b in ((2020, 2024) if q else (2020, 2024, 1984, 1990, 15)):
        us.append(dict(id=f"C18e[base={b}]", harness="calendar.VH_C18_TimePure", params={"Y": b}))
        for sect in (1, 2):
            us.append(dict(id=f"C18f[sect={sect},base={b}]", harness="calendar.VH_C11_PillarPure", params={"Y": b, "SECT": sect}))
    return us


_field = "field-level: every state of the lunar date satisfying the class invariant InvLunar (pillar fields symbolic: month -12..12 except 0, day 1..30, hour, minute, the 60-cycle indices of year/month/day pillars with their by-Lichun / exact variants within one step, weekday), term table and civil date of a concrete base day"
PROPS["C08"] = dict(units=c08_units, bounds_text=_field + "; real objects: every second of each listed year for the accessors that build other dates, the fortune chain and the packed-table lists (pillars concretised per month); containers of each listed year",
                    outside="Solar.GetJulianDay at second resolution (not encodable; 3-hour marks in C04); years not listed for the real-object part", unit_timeout_ms={"quick": 900000, "thorough": 2400000})
PROPS["C11"] = dict(units=c11_units, bounds_text=_field + ", both sects; pillar purity over pairs of such states; hour object vs own hour accessors on real objects for every second of each listed year", outside="list-valued hour yi/ji routes; reverse lookup default sect (C10)", unit_timeout_ms={"quick": 900000, "thorough": 2400000})
PROPS["C18"] = dict(units=c18_units, bounds_text=_field + "; purity over pairs of such states (scalar attributes fully symbolic; list-valued yi/ji/spirit lists with their defining pillars case-split by the solver and every non-defining pillar variant walked under a symbolic guard); table laws evaluated concretely", outside="none within InvLunar; the CONTENT of the packed almanac tables is not checked, only that the accessors are functions of the stated inputs")


def holiday_years():
    try:
        src = open(os.path.join(REPO, "HolidayUtil", "HolidayUtil.go")).read()
        mm = re.search(r'const data = "([0-9~]*)"', src)
        d = mm.group(1)
        ys = sorted({int(d[i:i + 4]) for i in range(0, len(d) - 17, 18)} | {int(d[i + 10:i + 14]) for i in range(0, len(d) - 17, 18)})
        return [y for y in ys if 1990 <= y <= 2100]
    except Exception:
        return list(range(2001, 2026))


def c14_units(tier, seed):
    q = tier == "quick"
    ys = holiday_years()
    us = []
    for Y in ys + [ys[0] - 1, ys[-1] + 1]:
        for m in range(1, 13):
            us.append(dict(id=f"C14a[Y={Y},m={m}]", harness="HolidayUtil.VH_C14_Views", params={"Y": Y, "M": m}))
    # fix-ups: one unit per block of 60 records (the table has ~820)
    for lo in range(0, 900, 60):
        us.append(dict(id=f"C14d[rec={lo}..{lo+59}]", harness="HolidayUtil.VH_C14_Fix", params={"LO": lo, "HI": lo + 59}))
    ys2 = ys[-6:] + ys[:2] if q else ys
    for Y in ys2:
        us += per_year("calendar.VH_C14_WorkdayStep", "C14b", [Y], {"N": 3 if q else 6})
        us += per_year("calendar.VH_C14_SalaryRate", "C14c", [Y])
    return us


PROPS["C14"] = dict(units=c14_units, bounds_text="every day of every month of every year present in the packed table (plus the year before and after): day lookup with symbolic day, month/year views, target view per day; workday stepping |n|<=3 (quick) / 6 (thorough) and pay rate for every day of the listed table years; fix-ups: for EVERY record of the table a one-segment replace (work flag toggled), remove, add (same record thirty years later) and a three-step sequence that extends the festival names, adds a record under the new name, replaces and removes it; table compared record by record afterwards",
                    outside="fix-up strings of more than one segment, fix-ups that rename existing festivals, fix-ups on days with several records; larger step counts")


def c09_units(tier, seed):
    q = tier == "quick"
    us = []
    pairs = [(2020, 1990)] if q else [(2020, 1990), (15, 16), (9992, 9993), (1582, 2033)]
    for (A, B) in pairs:
        for X in range(7):
            us.append(dict(id=f"C09a[A={A},B={B},X={X}]", harness="calendar.VH_C09_History", params={"A": A, "B": B, "X": X, "H": 3 if q else 4}))
        us.append(dict(id=f"C09b[A={A},B={B}]", harness="calendar.VH_C09_LockDiscipline", params={"A": A, "B": B, "ENV": 1}))
        us.append(dict(id=f"C09c[Y={A}]", harness="calendar.VH_C09_SharedReads", params={"Y": A}))
    if not q:
        for X in range(7):
            us.append(dict(id=f"C09a[H=5,X={X}]", harness="calendar.VH_C09_History", params={"A": 2020, "B": 1990, "X": X, "H": 5}))
    return us


PROPS["C09"] = dict(units=c09_units, bounds_text="histories: every sequence of 3 calls (quick; thorough: 4 calls for four year pairs and 5 calls for one) from a 7-entry menu (two years' tables, conversions, recovered panics on invalid input and on an absurd year) before the observed call, for each menu entry as observed call; concurrency: one critical-section step of NewLunarYear under arbitrary interference at every lock acquisition (cache empty / other year / same year), lock released on every path incl. panics; every zero-argument accessor AND every method taking only int/bool options (sect, gender, step count; called with 1 and 2 / true and false; Set* mutators excluded) of 19 object types free of unprotected writes to shared memory (lockset argument: no two concurrent readers can race)",
                    outside="goroutine scheduling below critical-section granularity is covered only through the lockset argument (all accesses to the cache are inside the lock; readers write nothing); weak memory; HolidayUtil.Fix (a documented mutator); more than 3-call histories",
                    assumptions=["sync.Mutex is modelled as a held flag; Lock on a held mutex in a sequential history is reported as the library being blocked", "environment model at Lock: protected state is re-chosen within the cache invariant (nil, or a table that equals the sequentially computed table of its year)"])


def c10_units(tier, seed):
    q = tier == "quick"
    us = []
    years = [2024] if q else [2020, 2024]
    # a (year, month) whose Jie instant falls at 23h (rat hour across the Jie): from the native feature scan
    late = []
    for f, ys in scan_feature_years("jie-at-23h-in-month-").items():
        mth = int(f.rsplit("-", 1)[1])
        y = min(ys, key=lambda v: abs(v - 2024))
        late.append((abs(y - 2024), y, mth))
    late.sort()
    for (_, y, mth) in late[:1]:  # the other 23h-Jie months give more string alternatives than the executor merges
        for sect in (1, 2):
            w = 2 if (q and sect == 2) else 1
            us.append(dict(id=f"C10a[Y={y},m={mth},sect={sect},base={y-3},win={w},jie-at-23h]", harness="calendar.VH_C10_Reverse",
                           params={"Y": y, "SECT": sect, "BASE": y - 3, "WIN": w}, concrete={"v_m": mth}))
    for Y in years:
        for m in range(1, 13):
            for sect in (1, 2):
                if q and sect == 2 and m != 2:
                    continue  # a sect-2 unit costs minutes: quick keeps the Lichun month only
                # the default base year 1900 under the early-rat convention only: under the late-rat one a unit of a month whose
                # Jie falls at 23h has a query that does not finish in the per-query limit on a loaded machine
                for base in ((Y - 3,) if (q or sect == 2) else (Y - 3, 1900)):
                    w = 2 if (q and sect == 2) else 1
                    us.append(dict(id=f"C10a[Y={Y},m={m},sect={sect},base={base},win={w}]", harness="calendar.VH_C10_Reverse",
                                   params={"Y": Y, "SECT": sect, "BASE": base, "WIN": w}, concrete={"v_m": m}))
    # C10b: the convenience variants (default convention 2, default base year 1900) equal the explicit call; hour case-split
    rnd = random.Random(seed + 10)
    days = [(2024, 2, 4), (2024, 5, 17), (2024, 12, 6), (1984, 2, 4)] if q else [(Y, m, rnd.randint(1, 28)) for Y in (1901, 1950, 1984, 2000, 2024) for m in range(1, 13)]
    for (Y, m, d) in days:
        us.append(dict(id=f"C10b[{Y}-{m:02d}-{d:02d}]", harness="calendar.VH_C10_DefaultRoute", params={"Y": Y, "M": m, "D": d}))
    return us


PROPS["C10"] = dict(units=c10_units, bounds_text="every second of the three days around the Jie (in quick, under the late-rat convention: of the Jie day itself) of each month of the listed years (quick: 2024; thorough: 2020, 2024), base year = year-3 (thorough also the default 1900 under the early-rat convention); quick: early-rat convention for all 12 months, the late-rat convention for February, and both conventions for the (year, month) nearest 2024 whose Jie instant falls at 23h (from the feature scan); thorough: both conventions for every month; candidate-year loop unwound concretely (the clock's current year is read from the host)",
                    outside="years not listed; the days of a month further than one day from its Jie (their day pillars give more string alternatives than the executor merges); time.Now() beyond the host clock's year; the default variants (no sect / no base year) are compared with the explicit call on listed days only (hour case-split, minute and second symbolic)",
                    unit_timeout_ms={"quick": 1500000, "thorough": 3600000})
