NOTES = "All checks are solver-based: the harness functions under harness/ are executed symbolically together with the real library code loaded from /repo's current source; every assertion on every feasible path is an SMT validity query; bounds are listed per check and in each evidence file."

_note = "Trusted: go/ssa lowering, the symgo executor (self-tested against native runs), z3 (sampled cross-check with z3 4.8 and cvc5), the harness specs (integer JDN arithmetic, tuple comparison). Bounded: verdicts hold for all inputs inside the stated ranges/steps/year sets and say nothing outside them."

TEXT = {
    "C04": dict(level="Bounded symbolic verification over ALL civil dates 1..9998 (year symbolic): JD at 3-hour marks, NextDay/NextHour/NextMonth/NextYear, Subtract/SubtractMinute, IsBefore/IsAfter, 1582 gap and weekday continuity are proved equal to an integer JDN specification for every date and every step inside the stated step bounds.", note=_note),
    "C05": dict(level="Bounded symbolic verification: day and hour pillars proved against the integer JDN spec for every date-time of years 1..9998 (year symbolic).", note=_note),
    "C07": dict(level="Bounded symbolic verification: NewSolar/NewSolarFromYmd panic iff the argument tuple is invalid, for every year 1..9998 and every other argument in [-2^31,2^31].", note=_note),
    "C19": dict(level="Bounded symbolic verification: fixed-width civil renderings parse back and sort chronologically for two arbitrary date-times in years 1..9999.", note=_note),
    "C20": dict(level="Bounded symbolic verification over all dates of years 1..9998: zodiac sign table/contiguity and every weekday/fixed-date festival key reported exactly on its rule's day.", note=_note),
}

_py = " Per-year harnesses: the civil year is a concrete parameter (its term/new-moon tables are computed natively from the current /repo), month cubed, day/hour/minute/second symbolic: one verdict covers every second of the year; the year list actually decided is in the evidence file."
TEXT.update({
    "C01": dict(level="Bounded symbolic verification per listed year: GetLunar -> NewLunar round trip with identical pillar fields, lunar date = position in the year's month table (JDN identity), lunar stepping = civil stepping for |n|<=35 (quick) / 400 (thorough)." + _py, note=_note),
    "C03": dict(level="Bounded symbolic verification per listed year: prev/next term (all/jie/qi, instant and whole-day variants), today's term and current-term accessors equal a tuple-comparison spec over the year's 31 entries for every second of the year, including the term instants themselves." + _py, note=_note + " The numerical content of the term instants (ephemeris) is outside the claim."),
    "C06": dict(level="Per listed lunar year: structural clauses evaluated on the real table (concrete evaluation inside the executor); month navigation Next(n) for symbolic n (|n|<=30 quick / 150 thorough) from every month: non-nil, direction, distance, inverse and composition with +1, decided by the solver." + _py, note=_note),
    "C13": dict(level="Bounded symbolic verification per listed year: nine-nines, dog days, pentads, Cold Food, She days and New Year's Eve equal a JDN/stem spec for every day of the year." + _py, note=_note),
    "C17": dict(level="Bounded symbolic verification per listed year: Taoist/Buddhist year offsets, round trips through NewTao/NewFoto, and every day-class predicate equals its table/stem definition for every moment of the year." + _py, note=_note),
})
TEXT["C15"] = dict(level="Bounded symbolic verification over ALL civil dates 1..9998 (year symbolic, cubed on calendar era and month) and all 7 week starts: first day/weekday/containment, seven consecutive days, index in month and year, weeks of a month (count and list), days in month, whole-week stepping = 7n days with inverse, month-separated stepping one position per step (+1/-1/0), month day lists, month/season/half-year/year navigation.", note=_note)
TEXT["C12"] = dict(level="Bounded symbolic verification. Start offsets and direction: for every birth second of each listed year, both genders and both schools, the offset equals the stated conversion of the distance to the next/previous Jie (computed from the year's real term table by tuple arithmetic) and lies in range. Chain: field-level harness over arbitrary month/hour pillars, direction and start offset: great-fortune spans contiguous and aligned with the birth year, pillars step from the month pillar, every annual fortune carries (year-4) mod 60, monthly fortunes follow five tigers, minor fortunes step from the hour pillar by age.", note=_note + " The chain harness builds the Yun object directly (fields symbolic within the ranges the start-offset harness proves); a counterexample there is a field valuation replayed natively on the same struct.")
TEXT["C05"]["level"] += " Year and month pillars (three year conventions, two month conventions) are decided per listed year against a spec computed from the year's real term table by tuple comparison." + _py
TEXT["C07"]["level"] += " NewLunar/NewTao/NewFoto accept exactly the (month, day, time) tuples of the listed lunar years' own tables (month cubed -13..13, day and time symbolic)."

NOT_APPLICABLE = {
    "C02": "Every clause is about the numerical output of the ephemeris (sin/cos series, Newton steps, delta-T tables) evaluated at a concrete year against an external oracle (independent ephemeris / ICU, not present); no SMT theory covers the transcendental code and nothing symbolic is left once the year is concrete - deciding it would be enumeration of concrete runs, not solver-based checking (DESIGN.md §5).",
}
for p in ["C08","C09","C10","C11","C14","C16","C18"]:
    NOT_APPLICABLE.setdefault(p, "check not built yet in this revision (work in progress; see DESIGN.md §9 build order)")
