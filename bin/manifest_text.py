NOTES = "All checks are solver-based: the harness functions under harness/ are executed symbolically together with the real library code loaded from /repo's current source; every assertion on every feasible path is an SMT validity query; bounds are listed per check and in each evidence file."

_note = "Trusted: go/ssa lowering, the symgo executor (self-tested against native runs), z3 (sampled cross-check with z3 4.8 and cvc5), the harness specs (integer JDN arithmetic, tuple comparison). Bounded: verdicts hold for all inputs inside the stated ranges/steps/year sets and say nothing outside them."

TEXT = {
    "C04": dict(level="Bounded symbolic verification over ALL civil dates 1..9998 (year symbolic): JD at 3-hour marks, NextDay/NextHour/NextMonth/NextYear, Subtract/SubtractMinute, IsBefore/IsAfter, 1582 gap and weekday continuity are proved equal to an integer JDN specification for every date and every step inside the stated step bounds.", note=_note),
    "C05": dict(level="Bounded symbolic verification: day and hour pillars proved against the integer JDN spec for every date-time of years 1..9998 (year symbolic).", note=_note),
    "C07": dict(level="Bounded symbolic verification: NewSolar/NewSolarFromYmd panic iff the argument tuple is invalid, for every year 1..9998 and every other argument in [-2^31,2^31].", note=_note),
    "C19": dict(level="Bounded symbolic verification: fixed-width civil renderings parse back and sort chronologically for two arbitrary date-times in years 1..9999.", note=_note),
    "C20": dict(level="Bounded symbolic verification over all dates of years 1..9998: zodiac sign table/contiguity and every weekday/fixed-date festival key reported exactly on its rule's day.", note=_note),
}

NOT_APPLICABLE = {
    "C02": "Every clause is about the numerical output of the ephemeris (sin/cos series, Newton steps, delta-T tables) evaluated at a concrete year against an external oracle (independent ephemeris / ICU, not present); no SMT theory covers the transcendental code and nothing symbolic is left once the year is concrete - deciding it would be enumeration of concrete runs, not solver-based checking (DESIGN.md §5).",
}
for p in ["C01","C03","C06","C08","C09","C10","C11","C12","C13","C14","C15","C16","C17","C18"]:
    NOT_APPLICABLE.setdefault(p, "check not built yet in this revision (work in progress; see DESIGN.md §9 build order)")
