#!/usr/bin/env python3
"""Generates harness/calendar/zz_vh_gen_rel.go: C11 (alternative routes agree) and C18 (attributes are pure
functions of their defining pillars) obligations from the tables below.  The tables are part of the check
(they state which accessors the property text pairs up / which inputs define an attribute)."""
import os, sys
VERIF = os.path.dirname(os.path.dirname(os.path.abspath(__file__)))

# ---- C11: deprecated alias = replacement; default-school accessor = the explicit school it documents (same object)
SAME = [
    ("l.GetGan()", "l.GetYearGan()"), ("l.GetZhi()", "l.GetYearZhi()"), ("l.GetShengxiao()", "l.GetYearShengXiao()"),
    ("l.GetChong()", "l.GetDayChong()"), ("l.GetChongGan()", "l.GetDayChongGan()"), ("l.GetChongGanTie()", "l.GetDayChongGanTie()"),
    ("l.GetChongShengXiao()", "l.GetDayChongShengXiao()"), ("l.GetChongDesc()", "l.GetDayChongDesc()"), ("l.GetSha()", "l.GetDaySha()"),
    ("l.GetPositionXi()", "l.GetDayPositionXi()"), ("l.GetPositionXiDesc()", "l.GetDayPositionXiDesc()"),
    ("l.GetPositionYangGui()", "l.GetDayPositionYangGui()"), ("l.GetPositionYangGuiDesc()", "l.GetDayPositionYangGuiDesc()"),
    ("l.GetPositionYinGui()", "l.GetDayPositionYinGui()"), ("l.GetPositionYinGuiDesc()", "l.GetDayPositionYinGuiDesc()"),
    ("l.GetPositionFu()", "l.GetDayPositionFu()"), ("l.GetPositionFuDesc()", "l.GetDayPositionFuDesc()"),
    ("l.GetPositionCai()", "l.GetDayPositionCai()"), ("l.GetPositionCaiDesc()", "l.GetDayPositionCaiDesc()"),
    ("l.GetDayPositionFu()", "l.GetDayPositionFuBySect(2)"), ("l.GetDayPositionFuDesc()", "l.GetDayPositionFuDescBySect(2)"),
    ("l.GetYearPositionTaiSui()", "l.GetYearPositionTaiSuiBySect(2)"), ("l.GetYearPositionTaiSuiDesc()", "l.GetYearPositionTaiSuiDescBySect(2)"),
    ("l.GetMonthPositionTaiSui()", "l.GetMonthPositionTaiSuiBySect(2)"), ("l.GetMonthPositionTaiSuiDesc()", "l.GetMonthPositionTaiSuiDescBySect(2)"),
    ("l.GetDayPositionTaiSui()", "l.GetDayPositionTaiSuiBySect(2)"), ("l.GetDayPositionTaiSuiDesc()", "l.GetDayPositionTaiSuiDescBySect(2)"),
    ("l.GetYearNineStar().GetIndex()", "l.GetYearNineStarBySect(2).GetIndex()"), ("l.GetMonthNineStar().GetIndex()", "l.GetMonthNineStarBySect(2).GetIndex()"),
    ("t.GetPositionFu()", "t.GetPositionFuBySect(2)"), ("t.GetPositionFuDesc()", "t.GetPositionFuDescBySect(2)"),
    # the hour object against the lunar date's own hour accessors
    ("t.GetGanZhi()", "l.GetTimeInGanZhi()"), ("t.GetGan()", "l.GetTimeGan()"), ("t.GetZhi()", "l.GetTimeZhi()"),
    ("t.GetShengXiao()", "l.GetTimeShengXiao()"), ("t.GetNaYin()", "l.GetTimeNaYin()"),
    ("t.GetTianShen()", "l.GetTimeTianShen()"), ("t.GetTianShenType()", "l.GetTimeTianShenType()"), ("t.GetTianShenLuck()", "l.GetTimeTianShenLuck()"),
    ("t.GetPositionXi()", "l.GetTimePositionXi()"), ("t.GetPositionXiDesc()", "l.GetTimePositionXiDesc()"),
    ("t.GetPositionYangGui()", "l.GetTimePositionYangGui()"), ("t.GetPositionYangGuiDesc()", "l.GetTimePositionYangGuiDesc()"),
    ("t.GetPositionYinGui()", "l.GetTimePositionYinGui()"), ("t.GetPositionYinGuiDesc()", "l.GetTimePositionYinGuiDesc()"),
    ("t.GetPositionFu()", "l.GetTimePositionFu()"), ("t.GetPositionFuDesc()", "l.GetTimePositionFuDesc()"),
    ("t.GetPositionCai()", "l.GetTimePositionCai()"), ("t.GetPositionCaiDesc()", "l.GetTimePositionCaiDesc()"),
    ("t.GetChong()", "l.GetTimeChong()"), ("t.GetSha()", "l.GetTimeSha()"), ("t.GetChongGan()", "l.GetTimeChongGan()"),
    ("t.GetChongGanTie()", "l.GetTimeChongGanTie()"), ("t.GetChongShengXiao()", "l.GetTimeChongShengXiao()"), ("t.GetChongDesc()", "l.GetTimeChongDesc()"),
    ("t.GetXun()", "l.GetTimeXun()"), ("t.GetXunKong()", "l.GetTimeXunKong()"),
    ("t.GetGanIndex()", "l.GetTimeGanIndex()"), ("t.GetZhiIndex()", "l.GetTimeZhiIndex()"),
    # the lunar-year object against the New-Year-based year accessors
    ("ly.GetGanZhi()", "l.GetYearInGanZhi()"), ("ly.GetGan()", "l.GetYearGan()"), ("ly.GetZhi()", "l.GetYearZhi()"),
    ("ly.GetNineStar().GetIndex()", "l.GetYearNineStarBySect(1).GetIndex()"),
    ("ly.GetPositionTaiSui()", "l.GetYearPositionTaiSuiBySect(1)"), ("ly.GetPositionTaiSuiDesc()", "l.GetYearPositionTaiSuiDescBySect(1)"),
    ("ly.GetPositionFu()", "ly.GetPositionFuBySect(2)"), ("ly.GetPositionFuDesc()", "ly.GetPositionFuDescBySect(2)"),
    # eight characters: the selected pillars are the lunar date's exact pillars
    ("e.GetYear()", "l.GetYearInGanZhiExact()"), ("e.GetMonth()", "l.GetMonthInGanZhiExact()"), ("e.GetTime()", "l.GetTimeInGanZhi()"),
    ("e.GetYearXun()", "l.GetYearXunExact()"), ("e.GetMonthXun()", "l.GetMonthXunExact()"), ("e.GetTimeXun()", "l.GetTimeXun()"),
]

# ---- C11 second sentence: attributes of the eight characters are functions of the four pillars as selected by the sect
EC_ATTRS = ["GetYearWuXing", "GetYearNaYin", "GetYearShiShenGan", "GetYearDiShi", "GetYearXun", "GetYearXunKong",
            "GetMonthWuXing", "GetMonthNaYin", "GetMonthShiShenGan", "GetMonthDiShi", "GetMonthXun", "GetMonthXunKong",
            "GetDayWuXing", "GetDayNaYin", "GetDayShiShenGan", "GetDayDiShi", "GetDayXun", "GetDayXunKong",
            "GetTimeWuXing", "GetTimeNaYin", "GetTimeShiShenGan", "GetTimeDiShi", "GetTimeXun", "GetTimeXunKong",
            "GetTaiYuan", "GetTaiYuanNaYin", "GetTaiXi", "GetTaiXiNaYin", "GetMingGong", "GetMingGongNaYin", "GetShenGong", "GetShenGongNaYin"]

# ---- C18: attribute <- defining fields of the lunar date
DG, DZ = "dayGanIndex", "dayZhiIndex"
MG, MZ = "monthGanIndex", "monthZhiIndex"
TG, TZ = "timeGanIndex", "timeZhiIndex"
DGX, DZX = "dayGanIndexExact", "dayZhiIndexExact"
PURE = [
    # day god directions, Pengzu, clash stem <- day stem
    ([DG], ["GetDayPositionXi", "GetDayPositionXiDesc", "GetDayPositionYangGui", "GetDayPositionYangGuiDesc", "GetDayPositionYinGui", "GetDayPositionYinGuiDesc",
            "GetDayPositionFu", "GetDayPositionFuDesc", "GetDayPositionCai", "GetDayPositionCaiDesc", "GetPengZuGan", "GetDayChongGan", "GetDayChongGanTie", "GetDayGan"]),
    # clash animal, sha <- day branch
    ([DZ], ["GetDayChong", "GetDayChongShengXiao", "GetDaySha", "GetPengZuZhi", "GetDayShengXiao", "GetDayZhi"]),
    # nayin, xun, empty branches <- the pair
    ([DG, DZ], ["GetDayNaYin", "GetDayXun", "GetDayXunKong", "GetDayInGanZhi", "GetDayChongDesc", "GetDayPositionTai", "GetDayLu"]),
    ([MG, MZ], ["GetMonthNaYin", "GetMonthXun", "GetMonthXunKong", "GetMonthInGanZhi"]),
    ([DGX, DZX], ["GetDayXunExact", "GetDayXunKongExact", "GetDayInGanZhiExact", "GetDayGanExact", "GetDayZhiExact"]),
    (["dayGanIndexExact2", "dayZhiIndexExact2"], ["GetDayXunExact2", "GetDayXunKongExact2", "GetDayInGanZhiExact2", "GetDayGanExact2", "GetDayZhiExact2"]),
    (["monthGanIndexExact", "monthZhiIndexExact"], ["GetMonthXunExact", "GetMonthXunKongExact", "GetMonthInGanZhiExact", "GetMonthGanExact", "GetMonthZhiExact"]),
    (["yearGanIndexExact", "yearZhiIndexExact"], ["GetYearXunExact", "GetYearXunKongExact", "GetYearInGanZhiExact", "GetYearGanExact", "GetYearZhiExact", "GetYearShengXiaoExact"]),
    (["yearGanIndexByLiChun", "yearZhiIndexByLiChun"], ["GetYearXunByLiChun", "GetYearXunKongByLiChun", "GetYearInGanZhiByLiChun", "GetYearGanByLiChun", "GetYearZhiByLiChun", "GetYearShengXiaoByLiChun"]),
    (["yearGanIndex", "yearZhiIndex"], ["GetYearNaYin", "GetYearXun", "GetYearXunKong", "GetYearInGanZhi", "GetYearShengXiao"]),
    # duty god, heavenly spirit <- month branch, day branch
    ([MZ, DZ], ["GetZhiXing", "GetDayTianShen", "GetDayTianShenType", "GetDayTianShenLuck"]),
    # moon phase, six-day cycle, season <- lunar month and day
    (["month", "day"], ["GetYueXiang", "GetLiuYao", "GetSeason", "GetMonthInChinese", "GetDayInChinese", "GetMonthPositionTai"]),
    # hour level: <- hour stem / branch / pair, and (exact day branch, hour branch)
    ([TG], ["GetTimePositionXi", "GetTimePositionXiDesc", "GetTimePositionYangGui", "GetTimePositionYinGui", "GetTimePositionFu", "GetTimePositionCai", "GetTimeChongGan", "GetTimeChongGanTie", "GetTimeGan"]),
    ([TZ], ["GetTimeChong", "GetTimeChongShengXiao", "GetTimeSha", "GetTimeShengXiao", "GetTimeZhi"]),
    ([TG, TZ], ["GetTimeNaYin", "GetTimeXun", "GetTimeXunKong", "GetTimeInGanZhi", "GetTimeChongDesc"]),
    ([DZX, TZ], ["GetTimeTianShen", "GetTimeTianShenType", "GetTimeTianShenLuck"]),
    # the lunar mansion <- day branch and weekday
    ([DZ, "weekIndex"], ["GetXiu", "GetXiuLuck", "GetXiuSong", "GetZheng", "GetAnimal", "GetGong", "GetShou"]),
]


def main():
    out = ["// Code generated by /verif/bin/gen_relations.py; DO NOT EDIT.", "", "package calendar", ""]
    out.append("// vhRoutes: C11 - alternative routes to the same fact on one state (l, its hour object t, its eight characters e, its lunar-year object ly)")
    out.append("func vhRoutes(l *Lunar, t *LunarTime, e *EightChar, ly *LunarYear) {")
    for a, b in SAME:
        tag = (a + "=" + b).replace('"', "'")
        out.append(f"\tvEach(func() {{ vAssert(\"route:{tag}\", {a} == {b}) }})")
    out.append("}")
    out.append("")
    out.append("// vhEightCharPure: C11 - two charts whose four pillars (as selected by the sect) coincide report the same attributes")
    out.append("func vhEightCharPure(a, b *EightChar) {")
    for m in EC_ATTRS:
        out.append("\tvEach(func() {")
        pill = next((p for p in ("Year", "Month", "Day", "Time") if m.startswith("Get" + p)), None)
        if pill:
            # an attribute of pillar P is computed from P and (for ten-gods / life stages) the day pillar, both as selected by the sect
            out.append(f"\t\tvAssume(a.Get{pill}() == b.Get{pill}())")
            if pill != "Day":
                out.append("\t\tvAssume(a.GetDay() == b.GetDay())")
        else:
            for p in ("Year", "Month", "Day", "Time"):
                out.append(f"\t\tvAssume(a.Get{p}() == b.Get{p}())")
        out.append(f"\t\tvAssert(\"pillar-pure:{m}\", a.{m}() == b.{m}())")
        out.append("\t})")
    out.append("}")
    out.append("")
    out.append("// vhPure: C18 - two states that share an attribute's defining inputs share the attribute")
    out.append("func vhPure(a, b *Lunar) {")
    for fields, accs in PURE:
        out.append("\tvEach(func() {")
        for f in fields:
            out.append(f"\t\tvAssume(a.{f} == b.{f})")
        for m in accs:
            out.append(f"\t\tvEach(func() {{ vAssert(\"pure:{m}<-{'+'.join(fields)}\", a.{m}() == b.{m}()) }})")
        out.append("\t})")
    out.append("}")
    target, text = os.path.join(VERIF, "harness", "calendar", "zz_vh_gen_rel.go"), "\n".join(out) + "\n"
    if not os.path.exists(target) or open(target).read() != text:  # atomic, and only when the content changes
        tmp = target + ".tmp%d" % os.getpid()
        open(tmp, "w").write(text)
        os.replace(tmp, target)


if __name__ == "__main__":
    main()
